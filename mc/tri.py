"""trio engine: trio's own run loop pinned down by an Instrument (environment driver at the
I/O-wait point), a frozen MockClock, the scheduler's one random source, and ordered containers
where trio iterates over address-ordered sets."""
from __future__ import annotations

import socket as _socket
from math import inf
from typing import Any, Dict, List, Optional

import trio
import trio.testing
from trio._core import _run as trun

from . import bootstrap  # noqa: F401
from .aio import FakeSocket, proto_sig
from .core import STOP, Chooser, ConnRec, HarnessError, Instance, RecordingLogger, ScriptApp, WorldBase, install_logger

MAX_STEPS = 20000

_WORLD: Any = None  # the world of the execution in progress (one per process at a time)


# ---------------------------------------------------------------------------------------------
# determinism patches (harness process only)


class OrderedSet(dict):
    """Insertion-ordered set; any iteration order of a real set is realisable, this fixes one."""

    def add(self, x: Any) -> None:
        self[x] = None

    def remove(self, x: Any) -> None:
        del self[x]

    def discard(self, x: Any) -> None:
        self.pop(x, None)


class _Rand:
    def random(self) -> float:
        w = _WORLD
        if w is None or not w.rev_enabled or w.batch_hint < 2:
            return 0.9
        return 0.9 if w.chooser.choose(2, "rev") == 0 else 0.1

    def shuffle(self, x: list) -> None:  # pragma: no cover
        pass

    def uniform(self, a: float, b: float) -> float:  # SystemClock's offset, used by real (non-virtual) runs
        return a


_patched = False
_deadline_counter = [0]


def install_patches() -> None:
    global _patched
    if _patched:
        return
    _patched = True
    trun._r = _Rand()

    def ordered_set(self: trio.Event) -> None:
        if not self._flag:
            self._flag = True
            tasks = sorted(self._tasks, key=lambda t: t._counter)
            w = _WORLD
            if w is not None and w.rev_enabled and len(tasks) > 1:
                if w.chooser.choose(2, "wake") == 1:
                    tasks.reverse()
            for task in tasks:
                trun.reschedule(task)
            self._tasks.clear()

    trio.Event.set = ordered_set  # type: ignore

    def add(self: Any, deadline: float, cancel_scope: Any) -> None:
        from heapq import heappush

        _deadline_counter[0] += 1
        heappush(self._heap, (deadline, _deadline_counter[0], cancel_scope))
        self._active += 1

    trun.Deadlines.add = add  # type: ignore

    orig_init = trun.CancelStatus.__init__

    def init(self: Any, *a: Any, **kw: Any) -> None:
        orig_init(self, *a, **kw)
        self._tasks = OrderedSet()
        self._children = OrderedSet()

    trun.CancelStatus.__init__ = init  # type: ignore

    import hypercorn.trio.run as trun_h

    orig = trun_h.TCPServer

    class RecordingTCPServer(orig):  # type: ignore
        def __init__(self, *a: Any, **kw: Any) -> None:
            super().__init__(*a, **kw)
            w = _WORLD
            if w is not None:
                w.servers.append(self)
                k = getattr(self.stream, "k", None)
                if k is not None:
                    w.tcp_of_conn[k] = self

    trun_h.TCPServer = RecordingTCPServer


# ---------------------------------------------------------------------------------------------
# transport


class FakeStream(trio.abc.HalfCloseableStream):
    """Follows trio.SocketStream: send_all blocks while the peer is not reading,
    ClosedResourceError after local close, BrokenResourceError after peer loss."""

    def __init__(self, world: "TrioWorld", rec: ConnRec, sock: FakeSocket) -> None:
        self.world = world
        self.rec = rec
        self.k = rec.k
        self.socket = sock
        self.inbox = bytearray()
        self.terminal: Any = None  # 'eof' or an exception, after the buffered data
        self.closed = False
        self.sent_eof = False
        self.broken = False
        self.peer_paused = False
        self.write_fail_armed = False
        self._recv_lot = trio.lowlevel.ParkingLot()
        self._send_lot = trio.lowlevel.ParkingLot()
        self._sending = False
        self._receiving = False

    # ---- Stream API
    async def send_all(self, data: bytes) -> None:
        if self._sending:
            raise trio.BusyResourceError("another task is currently sending data on this SocketStream")
        self._sending = True
        try:
            if self.sent_eof:
                raise trio.ClosedResourceError("can't send data after sending EOF")
            if self.closed:
                raise trio.ClosedResourceError("this socket was already closed")
            # like trio's socket send: only a cancellation check first, the syscall is attempted before yielding
            await trio.lowlevel.checkpoint_if_cancelled()
            if not data:
                await trio.lowlevel.cancel_shielded_checkpoint()
                return
            parked = False
            while True:
                if self.closed:
                    raise trio.ClosedResourceError("another task closed this socket")
                if self.broken:
                    raise trio.BrokenResourceError("socket connection broken: [Errno 32] Broken pipe")
                if self.write_fail_armed:
                    self.write_fail_armed = False
                    self.broken = True
                    self.rec.lost_at = self.world.now()
                    self.rec.lost_seq = self.world.next_seq()
                    # a failed send means the peer reset the connection: the read side sees it too
                    if self.terminal is None:
                        self.terminal = BrokenPipeError(32, "Broken pipe")
                    self._recv_lot.unpark_all()
                    raise trio.BrokenResourceError("socket connection broken: [Errno 32] Broken pipe")
                if not self.peer_paused:
                    break
                parked = True
                await self._send_lot.park()
            data = bytes(data)
            if not self.world.finished:
                self.rec.out.extend(data)
                self.rec.out_chunks.append((self.world.now(), data))
                cl = self.rec.client
                if cl is not None:
                    cl.on_server_bytes(data, self.world.now())
            if not parked:  # trio's _nonblocking_helper: after wait_writable the retry returns without yielding again
                await trio.lowlevel.cancel_shielded_checkpoint()
        finally:
            self._sending = False

    async def wait_send_all_might_not_block(self) -> None:
        await trio.lowlevel.checkpoint()

    async def send_eof(self) -> None:
        if self._sending:
            raise trio.BusyResourceError("another task is currently sending data on this SocketStream")
        await trio.lowlevel.checkpoint()
        if self.sent_eof:
            return
        if self.closed:
            raise trio.ClosedResourceError("this socket was already closed")
        self.sent_eof = True
        if not self.world.finished:
            self.rec.server_eof_at = self.world.now()

    async def receive_some(self, max_bytes: Optional[int] = None) -> bytes:
        if self._receiving:
            raise trio.BusyResourceError("another task is currently receiving data on this SocketStream")
        self._receiving = True
        try:
            if max_bytes is None:
                max_bytes = 65536
            if max_bytes < 1:
                raise ValueError("max_bytes must be >= 1")
            if self.closed:
                raise trio.ClosedResourceError("this socket was already closed")
            await trio.lowlevel.checkpoint_if_cancelled()
            parked = False  # after wait_readable the retried recv returns without yielding again (as real trio)
            while True:
                if self.closed:
                    raise trio.ClosedResourceError("another task closed this socket")
                if self.inbox:
                    data = bytes(self.inbox[:max_bytes])
                    del self.inbox[:max_bytes]
                    if not parked:
                        await trio.lowlevel.cancel_shielded_checkpoint()
                    return data
                if self.terminal == "eof":
                    if not parked:
                        await trio.lowlevel.cancel_shielded_checkpoint()
                    return b""
                if isinstance(self.terminal, BaseException):
                    self.broken = True
                    raise trio.BrokenResourceError(f"socket connection broken: {self.terminal}")
                parked = True
                await self._recv_lot.park()
        finally:
            self._receiving = False

    async def aclose(self) -> None:
        if not self.closed:
            self.closed = True
            self.socket.close()
            if self.rec.closed_at is None and not self.world.finished:
                self.rec.closed_at = self.world.now()
            self._recv_lot.unpark_all()
            self._send_lot.unpark_all()
        await trio.lowlevel.checkpoint()

    # ---- environment side
    def env_feed(self, item: Any) -> None:
        if self.closed or self.terminal is not None:
            return
        if isinstance(item, (bytes, bytearray)):
            self.inbox.extend(item)
        else:
            self.terminal = item
            if isinstance(item, BaseException):
                self.rec.lost_at = self.world.now()
                self.rec.lost_seq = self.world.next_seq()
                self.broken = True
                self._send_lot.unpark_all()
        self._recv_lot.unpark_all()

    def env_resume(self) -> None:
        self.peer_paused = False
        self._send_lot.unpark_all()


class FakeTLSStream(trio.abc.Stream):
    """Looks like trio.SSLStream to hypercorn: do_handshake, selected_alpn_protocol, transport_stream."""

    def __init__(self, inner: FakeStream, alpn: Optional[str]) -> None:
        self.transport_stream = inner
        self._alpn = alpn
        self.k = inner.k

    async def do_handshake(self) -> None:
        await trio.lowlevel.checkpoint()

    def selected_alpn_protocol(self) -> Optional[str]:
        return self._alpn

    async def send_all(self, data: bytes) -> None:
        await self.transport_stream.send_all(data)

    async def wait_send_all_might_not_block(self) -> None:
        await self.transport_stream.wait_send_all_might_not_block()

    async def receive_some(self, max_bytes: Optional[int] = None) -> bytes:
        return await self.transport_stream.receive_some(max_bytes)

    async def aclose(self) -> None:
        await self.transport_stream.aclose()


class FakeListener(trio.abc.Listener):
    def __init__(self, world: "TrioWorld", sock: Any) -> None:
        self.world = world
        self.socket = sock
        # connections that arrived while the socket was listening but nobody was accepting yet
        self.backlog: List[Any] = list(getattr(world, "pre_backlog", []))
        if self.backlog:
            world.pre_backlog.clear()
        self.closed = False
        self._lot = trio.lowlevel.ParkingLot()
        world.listeners.append(self)

    async def accept(self) -> Any:
        if self.closed:
            raise trio.ClosedResourceError
        await trio.lowlevel.checkpoint()
        while True:
            if self.closed:
                raise trio.ClosedResourceError
            if self.backlog:
                return self.backlog.pop(0)
            await self._lot.park()

    async def aclose(self) -> None:
        self.closed = True
        # connections still waiting in the accept queue are reset by the kernel when the listener goes away
        for stream in self.backlog:
            inner = getattr(stream, "transport_stream", stream)
            if not self.world.finished:
                inner.rec.refused = True
                inner.rec.closed_at = self.world.now()
            inner.closed = True
        self.backlog.clear()
        self._lot.unpark_all()
        await trio.lowlevel.checkpoint()


class _Instr(trio.abc.Instrument):
    def __init__(self, world: "TrioWorld") -> None:
        self.world = world

    def before_io_wait(self, timeout: float) -> None:
        self.world.boundary()


class TrioWorld(WorldBase):
    engine = "trio"
    cancelled_exc = trio.Cancelled

    def __init__(self, scenario: dict, chooser: Chooser) -> None:
        super().__init__(scenario, chooser)
        self.clock = trio.testing.MockClock(rate=0.0, autojump_threshold=inf)
        self.streams: Dict[int, FakeStream] = {}
        self.servers: List[Any] = []
        self.tcp_of_conn: Dict[int, Any] = {}
        self.listeners: List[FakeListener] = []
        self.listen_sock: Optional[FakeSocket] = None
        self.rev_enabled = bool(scenario.get("trio_rev", False))
        self.batch_hint = 0
        self.stopped = False
        self.started = False
        self.spin_task: Any = None
        self.runner: Any = None
        self.root: Any = None
        self._done: Optional[trio.Event] = None
        self.shutdown_event: Optional[trio.Event] = None
        self.config: Any = None
        self.context: Any = None
        self.app: Any = None
        self.lifespan_state: dict = {}
        self.live_tasks: List[tuple] = []
        self.final_time = 0.0
        self.harness_exc: Optional[BaseException] = None

    def now(self) -> float:
        return self.clock._virtual_base

    # ---- gates
    async def wait_gate(self, inst: Instance, name: str) -> None:
        ev = trio.Event()
        self.gate_waiters.setdefault(name, []).append(ev)
        inst.parked_gate = name
        inst.log.append((self.now(), "gate", name))
        try:
            await ev.wait()
        finally:
            inst.parked_gate = None
            lst = self.gate_waiters.get(name, [])
            if ev in lst:
                lst.remove(ev)

    async def sleep(self, dt: float) -> None:
        await trio.sleep(dt)

    # ---- setup
    def build_config(self) -> Any:
        from hypercorn.config import Config

        # scenario["config_object"]: an existing Config to serve with (e.g. the same object for two serve() calls);
        # scenario["logger_base"]: a RecordingLogger subclass (e.g. one whose access() yields) to record through
        cfg = self.scenario.get("config_object") or Config()
        world = self

        install_logger(self, cfg, "trio")  # scenario["logger"] = "real" | "statsd": hypercorn's own logger classes
        for key, value in self.scenario.get("config", {}).items():
            setattr(cfg, key, value)
        return cfg

    def _patch_time(self) -> None:
        import hypercorn.config
        import hypercorn.protocol.http_stream
        import hypercorn.protocol.ws_stream

        base = self.scenario.get("epoch", 1_700_000_000.0)
        fn = lambda: base + self.now()  # noqa: E731
        hypercorn.config.time = fn
        hypercorn.protocol.http_stream.time = fn
        hypercorn.protocol.ws_stream.time = fn

    def setup(self) -> None:
        from hypercorn.app_wrappers import ASGIWrapper
        from hypercorn.trio.worker_context import WorkerContext

        self._patch_time()
        sc = self.scenario
        self.config = self.build_config()
        raw_app = sc.get("app_factory")
        if raw_app is not None:
            self.app = raw_app(self)
        else:
            self.app = ASGIWrapper(ScriptApp(self, sc.get("apps", {})))
        if sc.get("level", "conn") != "serve":
            self.context = WorkerContext(sc.get("max_requests"))
            self.lifespan_state = dict(sc.get("lifespan_state", {}))

    async def _serve(self) -> None:
        import hypercorn.trio.run as hrun
        from hypercorn.config import Sockets

        sc = self.scenario
        if sc.get("randint") is not None:
            def _randint(a: int, b: int) -> int:
                vals = list(range(a, b + 1))
                return vals[self.chooser.choose(len(vals), "data")]
            hrun.randint = _randint
        self.listen_sock = FakeSocket(_socket.AF_INET, None, ("127.0.0.1", 8000))
        self.listen_sock.listening = True  # trio_worker listens before worker_serve starts
        self.shutdown_event = trio.Event()
        world = self
        orig_listener = trio.SocketListener
        orig_from = trio.socket.from_stdlib_socket
        trio.SocketListener = lambda sock: FakeListener(world, sock)  # type: ignore
        trio.socket.from_stdlib_socket = lambda sock: sock  # type: ignore
        try:
            await hrun.worker_serve(
                self.app, self.config,
                sockets=Sockets([], [self.listen_sock], []),
                shutdown_trigger=None if sc.get("no_trigger") else self.shutdown_event.wait,
            )
            if not self.finished:
                self.serve_result = "ok"
        except trio.Cancelled:
            if not self.finished:
                self.serve_result = "cancelled"
            raise
        except BaseException as e:
            if not self.finished:
                name = type(e).__name__
                if isinstance(e, BaseExceptionGroup):  # name the leaves: the group itself says nothing
                    def leaves(g: BaseException) -> list:
                        return [x for sub in g.exceptions for x in leaves(sub)] if isinstance(g, BaseExceptionGroup) else [type(g).__name__]
                    name += "[" + ",".join(sorted(set(leaves(e)))) + "]"
                self.serve_result = f"exc:{name}:{e}"
        finally:
            if not self.finished:
                self.serve_done_at = self.now()
            trio.SocketListener = orig_listener  # type: ignore
            trio.socket.from_stdlib_socket = orig_from  # type: ignore
            from random import randint

            hrun.randint = randint

    # ---- connections
    def _make_stream(self, k: int, opts: dict) -> Any:
        rec = ConnRec(k, opts)
        rec.opened_at = self.now()
        self.conns[k] = rec
        make_client = self.scenario.get("client_factory")
        if make_client is not None:
            rec.client = make_client(self, k, opts)
        family = _socket.AF_INET6 if opts.get("ipv6") else _socket.AF_INET
        if opts.get("unix"):
            family = _socket.AF_UNIX
        peer = opts.get("peer", ("10.0.0.%d" % (k + 1), 40000 + k))
        local = opts.get("local", ("127.0.0.1", 8000))
        if family == _socket.AF_INET6:
            peer = (peer[0], peer[1], 0, 0)
            local = (local[0], local[1], 0, 0)
        sock = FakeSocket(family, peer, local)
        st = FakeStream(self, rec, sock)
        self.streams[k] = st
        if opts.get("tls"):
            return FakeTLSStream(st, opts.get("alpn"))
        return st

    def open_conn(self, k: int, opts: dict) -> None:
        if self.scenario.get("level", "conn") == "serve":
            lst = [x for x in self.listeners if not x.closed]
            if not lst and self.listeners:
                rec = ConnRec(k, opts)
                rec.refused = True
                rec.closed_at = self.now()
                self.conns[k] = rec
                return
            stream = self._make_stream(k, opts)
            if lst:
                lst[0].backlog.append(stream)
                lst[0]._lot.unpark_all()
            else:
                self.pre_backlog.append(stream)
            return
        stream = self._make_stream(k, opts)
        self.root.start_soon(self._handle_conn, k, stream)

    async def _handle_conn(self, k: int, stream: Any) -> None:
        from hypercorn.trio.tcp_server import TCPServer

        rec = self.conns[k]
        tcp = TCPServer(self.app, self.config, self.context, self.lifespan_state, stream)
        self.servers.append(tcp)
        self.tcp_of_conn[k] = tcp
        try:
            await tcp.run()
        except trio.Cancelled:
            if not self.finished:
                rec.handler = "cancelled"
                rec.handler_done_at = self.now()
            raise
        except BaseException as e:
            from .aio import _exc_repr

            if not self.finished:
                rec.handler = f"exc:{_exc_repr(e)}"
                rec.handler_exc = e
                rec.handler_done_at = self.now()
        else:
            if not self.finished:
                rec.handler = "ok"
                rec.handler_done_at = self.now()

    # ---- environment events
    def _deadline(self) -> float:
        return self.runner.deadlines.next_deadline()

    def enabled(self, ev: tuple) -> bool:
        kind = ev[0]
        if kind in ("data", "cmd", "eof", "reset"):
            st = self.streams.get(ev[1])
            rec = self.conns.get(ev[1])
            if st is None or rec is None or rec.client_eof or rec.client_reset:
                return False
            if st.closed or st.broken:  # (a failed write means the peer is gone: it sends nothing more)
                return False
            if kind == "cmd" and rec.client is not None and not rec.client.cmd_enabled(ev):
                return False
            return True
        if kind in ("pause", "wfail"):
            st = self.streams.get(ev[1])
            return st is not None and not st.closed and not st.broken and not (kind == "pause" and st.peer_paused)
        if kind == "resume":
            st = self.streams.get(ev[1])
            return st is not None and st.peer_paused
        if kind == "release":
            return self.gate_parked(ev[1])
        if kind == "tick":
            return self._deadline() < inf
        if kind == "pause_dt":
            return self._deadline() > self.now() + ev[1] + 1e-6
        if kind == "connect":
            return ev[1] not in self.conns
        if kind == "shutdown":
            return self.shutdown_event is not None and not self.shutdown_event.is_set()
        if kind == "terminate":  # conn-level stand-in for "shutdown has begun"
            return self.context is not None and not self.context.terminated.is_set()
        if kind == "wait_status":  # pseudo event: the client has seen a response head (h2: on stream ev[2])
            rec = self.conns.get(ev[1])
            cl = None if rec is None else rec.client
            if cl is None:
                return False
            if cl.h2 is not None and cl.h1 is None:
                st = cl.h2.streams.get(ev[2] if len(ev) > 2 else 1)
                return st is not None and st["status"] is not None
            return cl.h1 is not None and bool(cl.h1.responses)
        if kind == "wait_closed":
            rec = self.conns.get(ev[1])
            return rec is not None and rec.closed_at is not None
        if kind in ("wait_idle", "call"):
            return True
        guard = self.scenario.get("guards", {}).get(kind)
        if guard is not None:  # scenario-defined pseudo event: enabled when its predicate holds, firing is a no-op
            return bool(guard(self, ev))
        raise HarnessError(f"unknown event {ev!r}")

    def fire(self, ev: tuple) -> None:
        kind = ev[0]
        self.events_log.append((self.now(), ev if kind != "call" else ("call",)))
        if kind == "data":
            self.streams[ev[1]].env_feed(ev[2])
        elif kind == "cmd":
            rec = self.conns[ev[1]]
            data = rec.client.command(ev)
            if data:
                self.streams[ev[1]].env_feed(data)
        elif kind == "eof":
            self.conns[ev[1]].client_eof = True
            self.streams[ev[1]].env_feed("eof")
        elif kind == "reset":
            self.conns[ev[1]].client_reset = True
            self.streams[ev[1]].env_feed(ConnectionResetError(104, "Connection reset by peer"))
        elif kind == "pause":
            self.streams[ev[1]].peer_paused = True
        elif kind == "resume":
            self.streams[ev[1]].env_resume()
        elif kind == "wfail":
            self.streams[ev[1]].write_fail_armed = True
        elif kind == "release":
            for e in self.gate_waiters.get(ev[1], [])[:1]:
                self.gate_waiters[ev[1]].remove(e)
                e.set()
        elif kind == "tick":
            nd = self._deadline()
            if nd < inf and nd > self.clock._virtual_base:
                self.clock._virtual_base = nd
        elif kind == "pause_dt":
            self.clock._virtual_base += ev[1]
        elif kind == "connect":
            self.open_conn(ev[1], ev[2] if len(ev) > 2 else {})
        elif kind == "shutdown":
            self.shutdown_at = self.now()
            self.shutdown_event.set()
        elif kind == "terminate":
            self.shutdown_at = self.now()
            self.context.terminated._event.set()
        elif kind in ("wait_closed", "wait_idle", "wait_status"):
            pass
        elif kind == "call":
            ev[1](self)

    # ---- the boundary (called from the instrument at every scheduler tick)
    def boundary(self) -> None:
        if self.stopped or not self.started:
            return
        try:
            runner = self.runner
            nonspin = [t for t in runner.runq if t is not self.spin_task]
            due = runner.deadlines.next_deadline() <= self.clock._virtual_base
            quiescent = not nonspin and not due
            if quiescent and self.scenario.get("monitor") is not None:
                self.scenario["monitor"](self)
            ev = self.driver.at_boundary(self, quiescent)
            if ev is STOP:
                self.stopped = True
                self._done.set()
                return
            if ev is not None:
                self.fire(ev)
            if quiescent and self.scenario.get("sigs", True):
                self.sigs.add(self.signature())
            nonspin = [t for t in runner.runq if t is not self.spin_task]
            due = runner.deadlines.next_deadline() <= self.clock._virtual_base
            self.batch_hint = len(nonspin) + (2 if due else 0)
            self.steps += 1
            if self.steps > MAX_STEPS:
                self.problems.append("livelock: step cap hit")
                self.stopped = True
                self._done.set()
        except BaseException as e:  # never let a harness bug unwind trio's run loop
            self.harness_exc = e
            self.stopped = True
            self._done.set()

    async def _spinner(self) -> None:
        self.spin_task = trio.lowlevel.current_task()
        while True:
            await trio.lowlevel.cancel_shielded_checkpoint()
            if self.stopped:
                await trio.lowlevel.checkpoint()

    async def _main(self) -> None:
        global _WORLD
        self.runner = trun.GLOBAL_RUN_CONTEXT.runner
        self._done = trio.Event()
        self.pre_backlog: List[Any] = []
        self.setup()
        try:
            async with trio.open_nursery() as root:
                self.root = root
                root.start_soon(self._spinner)
                if self.scenario.get("level", "conn") == "serve":
                    root.start_soon(self._serve)
                for k, opts in self.scenario.get("conns", {}).items():
                    self.open_conn(k, opts)
                self.started = True
                await self._done.wait()
                self.finish()
                # tear down: hypercorn shields its writes from cancellation, so release every parked
                # transport operation by force before cancelling (nothing is recorded any more)
                for st in self.streams.values():
                    st.closed = True
                    st.peer_paused = False
                    st._send_lot.unpark_all()
                    st._recv_lot.unpark_all()
                for lst in self.listeners:
                    lst.closed = True
                    lst._lot.unpark_all()
                for evs in self.gate_waiters.values():
                    for e in list(evs):
                        e.set()
                root.cancel_scope.cancel()
        except BaseException as e:
            if self.harness_exc is None and not isinstance(e, trio.Cancelled):
                self.teardown_exc = e

    def finish(self) -> None:
        self.finished = True
        self.sigs.add(self.signature())
        self.drain_instances()
        self.final_time = self.now()
        self.live_tasks = []
        for t in self.runner.tasks:
            if t is self.spin_task or t.name.startswith("<") or t is trio.lowlevel.current_task():
                continue
            if "_main" in t.name or "mc.tri" in t.name and "_handle_conn" not in t.name:
                continue
            self.live_tasks.append((None, t.name.split(".")[-1] + ":" + _where(t)))
        self.live_tasks.sort()

    def run(self) -> "TrioWorld":
        global _WORLD
        install_patches()
        _WORLD = self
        _deadline_counter[0] = 0
        try:
            trio.run(self._main, clock=self.clock, instruments=[_Instr(self)])
        finally:
            _WORLD = None
        if self.harness_exc is not None:
            raise self.harness_exc
        return self

    def signature(self) -> tuple:
        parts: List[Any] = [tuple(self.driver.pos)]
        for k in sorted(self.streams):
            st = self.streams[k]
            parts.append((k, st.closed, st.sent_eof, st.broken, st.peer_paused, proto_sig(self.tcp_of_conn.get(k))))
        parts.append(tuple((i.pc, i.outcome, i.parked_gate) for i in self.instances))
        parts.append(self.runner.deadlines.next_deadline() < inf if self.runner else None)
        return tuple(parts)


def _where(task: Any) -> str:
    frames = []
    try:
        for frame, lineno in task.iter_await_frames():
            frames.append(f"{frame.f_code.co_name}:{lineno}")
    except Exception:
        pass
    frames = [f for f in frames if not f.startswith(("park", "wait_task_rescheduled", "_async_yield"))]
    return ">".join(frames[-3:])


def run_execution(scenario: dict, prefix: List[int] = ()) -> TrioWorld:
    chooser = Chooser(prefix)
    world = TrioWorld(scenario, chooser)
    return world.run()
