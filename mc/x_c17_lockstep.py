"""Lock-step worker threads for the virtual asyncio loop (DESIGN.md 2.7), used by props/c17.py only.

`install()` gives `mc.aio.VLoop` a `run_in_executor` that starts a *real* thread but lets exactly one
of {loop thread, worker thread} run at any time:

* `run_in_executor(None, func, *args)` starts the worker and runs it at once until it blocks or ends;
* inside the worker `asyncio.run_coroutine_threadsafe(coro, loop).result()` (patched for VLoop
  instances only) queues the coroutine on the loop exactly like `call_soon_threadsafe` would, hands
  the baton back to the loop thread and resumes - synchronously, inside the task's done callback -
  once the coroutine has finished;
* when the function returns the result is delivered to the awaiting future through the loop's ready
  queue, as `wrap_future` does.

`run_on_vloop(main, on_idle)` runs a coroutine on a bare `VLoop` (no world, no transports) with this executor:
the direct lock-step seams tg:vloop / mw:vloop of C17's flow group.

Every such schedule is one a real thread pool can produce (the loop thread being descheduled while
the worker runs), and it is deterministic.  Jobs still blocked at teardown are abandoned: their pending
`.result()` raises `Abandoned` so the thread unwinds and exits.
"""
from __future__ import annotations

import asyncio
import threading
from typing import Any, Callable, Optional

from . import aio
from .core import HarnessError

WATCHDOG_S = 60.0
_TLS = threading.local()
_ORIG_RCTS = asyncio.run_coroutine_threadsafe


class Abandoned(BaseException):
    """Raised inside a worker whose execution has been torn down."""


class Job:
    def __init__(self, loop: Any, func: Callable, args: tuple) -> None:
        self.loop = loop
        self.func = func
        self.args = args
        self.fut = loop.create_future()
        self.cv = threading.Condition()
        self.turn = "main"
        self.finished = False
        self.abandoned = False
        self.thread = threading.Thread(target=self._run, name="c17-lockstep-worker", daemon=True)

    # -- loop-thread side
    def start(self) -> None:
        self.thread.start()
        self.to_worker()

    def to_worker(self) -> None:
        """Give the baton to the worker and wait until it blocks again or ends."""
        with self.cv:
            if self.finished:
                return
            self.turn = "worker"
            self.cv.notify_all()
            while self.turn != "main":
                if not self.cv.wait(WATCHDOG_S):
                    raise HarnessError("lock-step worker kept the baton for more than %.0f s" % WATCHDOG_S)

    def abandon(self) -> None:
        if self.finished:
            self.thread.join(WATCHDOG_S)
            return
        self.abandoned = True
        try:
            self.to_worker()
        finally:
            self.thread.join(WATCHDOG_S)

    # -- worker side
    def to_main(self, wait: bool = True) -> None:
        with self.cv:
            self.turn = "main"
            self.cv.notify_all()
            while wait and self.turn != "worker":
                self.cv.wait()

    def _run(self) -> None:
        with self.cv:
            while self.turn != "worker":
                self.cv.wait()
        _TLS.job = self
        result: Any = None
        error: Optional[BaseException] = None
        try:
            if self.abandoned:
                raise Abandoned()
            result = self.func(*self.args)
        except BaseException as e:  # delivered to the awaiting coroutine, like an executor future does
            error = e
        if not self.abandoned and not self.loop.is_closed():
            self.loop.inject(self._deliver, result, error)
        with self.cv:
            self.finished = True
        self.to_main(wait=False)

    def _deliver(self, result: Any, error: Optional[BaseException]) -> None:
        if self.fut.done():
            return
        if error is None:
            self.fut.set_result(result)
        elif isinstance(error, Exception):
            self.fut.set_exception(error)
        else:
            self.fut.set_exception(RuntimeError(f"worker ended with {type(error).__name__}"))


class BatonFuture:
    """What the patched run_coroutine_threadsafe returns to the worker."""

    def __init__(self, job: Job) -> None:
        self.job = job
        self.outcome: Optional[tuple] = None

    def result(self, timeout: Any = None) -> Any:
        job = self.job
        while self.outcome is None:
            if job.abandoned:
                raise Abandoned()
            job.to_main(wait=True)
        kind, value = self.outcome
        if kind == "ok":
            return value
        raise value

    def complete(self, task: Any) -> None:
        """Runs on the loop thread as the task's done callback."""
        if task.cancelled():
            import concurrent.futures

            self.outcome = ("exc", concurrent.futures.CancelledError())
        elif task.exception() is not None:
            self.outcome = ("exc", task.exception())
        else:
            self.outcome = ("ok", task.result())
        self.job.to_worker()


def _run_coroutine_threadsafe(coro: Any, loop: Any) -> Any:
    job = getattr(_TLS, "job", None)
    if job is None or not isinstance(loop, aio.VLoop) or job.loop is not loop:
        return _ORIG_RCTS(coro, loop)
    if job.abandoned or loop.is_closed():
        coro.close()
        raise Abandoned()
    bf = BatonFuture(job)

    def start() -> None:
        task = asyncio.ensure_future(coro, loop=loop)
        task.add_done_callback(bf.complete)

    loop.inject(start)  # the worker holds the baton: the loop thread is parked, this is race free
    return bf


def _run_in_executor(self: Any, executor: Any, func: Callable, *args: Any) -> Any:
    if executor is not None:
        raise HarnessError("lock-step executor: only the default executor is modelled")
    job = Job(self, func, args)
    self.executor_jobs.append(job)
    job.start()
    return job.fut


def install() -> None:
    aio.VLoop.run_in_executor = _run_in_executor  # type: ignore[assignment]
    asyncio.run_coroutine_threadsafe = _run_coroutine_threadsafe  # type: ignore[assignment]


def run_on_vloop(main: Callable[[Any], Any], on_idle: Callable[[Any], bool], max_steps: int = 200000) -> list:
    """Run `main(loop)` (a coroutine function) to completion on a fresh bare `VLoop` - no world, no
    transports - with the lock-step executor, for the direct seams of C17.  Whenever the loop has nothing
    to do (every task parked, the worker - if any - blocked in a bridged call) `on_idle(loop)` is asked to
    release something; when it cannot (returns False) the next timer is jumped to, and when there is none
    the run is reported as stuck.  Returns the list of problems."""
    from asyncio import events

    install()
    problems: list = []
    loop = aio.VLoop()
    events._set_running_loop(loop)
    loop._thread_id = threading.get_ident()
    try:
        task = loop.create_task(main(loop))
        steps = 0
        while not task.done():
            if not loop.has_work() and not on_idle(loop):
                nd = loop.next_deadline()
                if nd is None:
                    problems.append("stuck: nothing runnable, nothing to release, no timer")
                    break
                loop._vtime = nd
            loop.step()
            steps += 1
            if steps > max_steps:
                problems.append("livelock: step cap hit")
                break
        if task.done() and not task.cancelled() and task.exception() is not None:
            problems.append(f"main task failed: {type(task.exception()).__name__}: {task.exception()}")
    finally:
        try:
            for _ in range(3):
                pending = [t for t in loop.all_tasks_ever if not t.done()]
                if not pending:
                    break
                for t in pending:
                    t.cancel()
                for _ in range(200):
                    if not loop._ready:
                        break
                    loop.step()
            for t in loop.all_tasks_ever:
                if not t.done():
                    t._log_destroy_pending = False
                elif not t.cancelled():
                    t.exception()
            loop._thread_id = None
            events._set_running_loop(None)
            loop._ready.clear()
            loop._scheduled.clear()
            for job in loop.executor_jobs:
                job.abandon()
            loop.close()
        finally:
            loop._thread_id = None
            events._set_running_loop(None)
    return problems
