"""Bounded exhaustive exploration (model checking) of the real hypercorn code.

Import order matters: `mc.bootstrap` puts the repository under test first on
sys.path before anything imports `hypercorn`.
"""
from . import bootstrap  # noqa: F401
