"""asyncio engine: a virtual-time event loop stepped by hand, an in-memory transport that follows
the selector transport's contract, and the world that runs the real hypercorn asyncio worker."""
from __future__ import annotations

import asyncio
import contextvars
import heapq
import socket as _socket
from asyncio import events, transports
from typing import Any, Callable, Dict, List, Optional

from . import bootstrap  # noqa: F401
from .core import STOP, Chooser, ConnRec, HarnessError, Instance, RecordingLogger, ScriptApp, WorldBase, install_logger

CONN_K: contextvars.ContextVar = contextvars.ContextVar("conn_k", default=None)

MAX_STEPS = 20000


class DTask(asyncio.Task):
    """asyncio.Task whose hash is its creation index on the loop: sets of tasks (asyncio.TaskGroup._tasks,
    hypercorn's server_tasks) then iterate in an order that does not depend on memory addresses, which
    makes cancellation order - and with it the whole execution - a function of the choice sequence.
    Any order of such a set is realisable in a real run, this pins one."""

    def __hash__(self) -> int:
        return self._mc_id

    __eq__ = object.__eq__


class VLoop(asyncio.BaseEventLoop):
    """BaseEventLoop without a selector: time is virtual and `step()` is one `_run_once` iteration."""

    def __init__(self) -> None:
        super().__init__()
        self._vtime = 0.0
        self.all_tasks_ever: List[asyncio.Task] = []
        self.world: Any = None
        self.listening: Dict[Any, tuple] = {}
        self.set_task_factory(self._factory)
        self.set_exception_handler(self._on_exc)
        self.executor_jobs: List[Any] = []

    def world_finished(self) -> bool:
        return self.world is None or self.world.finished

    # -- plumbing BaseEventLoop expects
    def time(self) -> float:
        return self._vtime

    def _process_events(self, event_list: Any) -> None:  # pragma: no cover
        pass

    def _write_to_self(self) -> None:
        pass

    async def create_datagram_endpoint(self, protocol_factory: Any, local_addr: Any = None, remote_addr: Any = None, **kw: Any) -> Any:
        """UDP is owned too (only the statsd logger opens an endpoint): the real call suspends the caller
        (getaddrinfo, connect); one yield stands for that; what is sent goes to world.statsd."""
        await asyncio.sleep(0)
        world = self.world

        class _FakeDatagramTransport(asyncio.DatagramTransport):
            def sendto(self, data: Any, addr: Any = None) -> None:
                if world is not None and not world.finished:
                    world.statsd.append(bytes(data))

            def close(self) -> None:
                pass

            def is_closing(self) -> bool:
                return False

        return _FakeDatagramTransport(), protocol_factory()

    def _factory(self, loop: Any, coro: Any, **kw: Any) -> asyncio.Task:
        DTask._mc_id = len(self.all_tasks_ever) + 1  # visible to __hash__ during Task.__init__ (task registration)
        task = DTask(coro, loop=loop, **kw)
        task._mc_id = len(self.all_tasks_ever) + 1
        self.all_tasks_ever.append(task)
        return task

    def _on_exc(self, loop: Any, context: dict) -> None:
        if self.world is not None and not self.world.finished:
            self.world.exc_contexts.append(context)

    def add_signal_handler(self, sig: Any, callback: Any, *args: Any) -> None:
        pass

    def remove_signal_handler(self, sig: Any) -> bool:
        return True

    # -- listening sockets (used by the real asyncio.start_server / base_events.Server)
    def _start_serving(self, protocol_factory: Callable, sock: Any, sslcontext: Any = None,
                       server: Any = None, backlog: int = 100, *a: Any, **kw: Any) -> None:
        self.listening[sock] = (protocol_factory, server)
        sock.listening = True

    def _stop_serving(self, sock: Any) -> None:
        self.listening.pop(sock, None)
        sock.listening = False
        sock.close()

    # -- stepping
    def inject(self, callback: Callable, *args: Any, context: Any = None) -> None:
        """An I/O readiness callback, as `_process_events` would add it after select()."""
        self._ready.append(events.Handle(callback, args, self, context))

    def _live_timer(self) -> Optional[Any]:
        sched = self._scheduled
        while sched and sched[0]._cancelled:
            h = heapq.heappop(sched)
            h._scheduled = False
        return sched[0] if sched else None

    def next_deadline(self) -> Optional[float]:
        h = self._live_timer()
        return None if h is None else h._when

    def timers_due(self) -> bool:
        h = self._live_timer()
        return h is not None and h._when < self._vtime + self._clock_resolution

    def has_work(self) -> bool:
        return bool(self._ready) or self.timers_due()

    def step(self) -> None:
        """One iteration of BaseEventLoop._run_once (I/O callbacks were already injected)."""
        self._live_timer()
        end_time = self._vtime + self._clock_resolution
        sched = self._scheduled
        while sched:
            handle = sched[0]
            if handle._when >= end_time:
                break
            handle = heapq.heappop(sched)
            handle._scheduled = False
            if not handle._cancelled:
                self._ready.append(handle)
        ntodo = len(self._ready)
        for _ in range(ntodo):
            handle = self._ready.popleft()
            if handle._cancelled:
                continue
            handle._run()
        handle = None


class FakeSocket:
    type = _socket.SOCK_STREAM

    def __init__(self, family: int, peer: Any, local: Any) -> None:
        self.family = family
        self._peer = peer
        self._local = local
        self.closed = False
        self.listening = False

    def getpeername(self) -> Any:
        return self._peer

    def getsockname(self) -> Any:
        return self._local

    def setblocking(self, flag: bool) -> None:
        pass

    def listen(self, backlog: int = 0) -> None:
        pass

    def fileno(self) -> int:
        return 99

    def close(self) -> None:
        self.closed = True

    def setsockopt(self, *a: Any) -> None:
        pass

    def set_inheritable(self, flag: bool) -> None:
        pass


class FakeSSLObject:
    def __init__(self, alpn: Optional[str]) -> None:
        self._alpn = alpn

    def selected_alpn_protocol(self) -> Optional[str]:
        return self._alpn


class FakeTransport(transports._FlowControlMixin, transports.Transport):
    """Follows `_SelectorSocketTransport`: immediate writes unless the peer is not reading, then
    buffer + pause_writing above the high-water mark; close() waits for the buffer to flush;
    errors -> _force_close(exc) -> connection_lost(exc) via call_soon."""

    def __init__(self, loop: VLoop, protocol: Any, rec: ConnRec, sock: FakeSocket, server: Any,
                 tls: bool, alpn: Optional[str], context: Any) -> None:
        extra: Dict[str, Any] = {"socket": sock, "peername": sock.getpeername(), "sockname": sock.getsockname()}
        if tls:
            extra["ssl_object"] = FakeSSLObject(alpn)
            extra["sslcontext"] = object()
        super().__init__(extra, loop)
        self._loop = loop
        self._protocol = protocol
        self.rec = rec
        self._sock = sock
        self._server = server
        self._tls = tls
        self._ctx = context
        self._buffer = bytearray()
        self._closing = False
        self._conn_lost = 0
        self._eof = False
        self._read_paused = False
        self._inbox: List[Any] = []  # inbound items queued while reading is paused
        self.peer_paused = False
        self.write_fail_armed = False
        self._lost_called = False
        if server is not None:
            server._attach()
        loop.call_soon(self._protocol.connection_made, self, context=context)

    # ---- Transport API
    def is_closing(self) -> bool:
        return self._closing

    def get_protocol(self) -> Any:
        return self._protocol

    def set_protocol(self, protocol: Any) -> None:
        self._protocol = protocol

    def is_reading(self) -> bool:
        return not self._closing and not self._read_paused

    def pause_reading(self) -> None:
        self._read_paused = True

    def resume_reading(self) -> None:
        if self._closing or not self._read_paused:
            return
        self._read_paused = False
        if self._inbox:
            self._loop.inject(self._deliver_inbox, context=self._ctx)

    def get_write_buffer_size(self) -> int:
        return len(self._buffer)

    def can_write_eof(self) -> bool:
        return not self._tls

    def write(self, data: bytes) -> None:
        if not isinstance(data, (bytes, bytearray, memoryview)):
            raise TypeError(f"data argument must be a bytes-like object, not {type(data).__name__!r}")
        if self._eof:
            raise RuntimeError("Cannot call write() after write_eof()")
        if not data:
            return
        if self._conn_lost:
            self._conn_lost += 1
            return
        if not self._buffer:
            if self.write_fail_armed:
                self.write_fail_armed = False
                self.rec.lost_at = self._loop.time()
                self.rec.lost_seq = self._loop.world.next_seq() if self._loop.world is not None else 0
                self._force_close(BrokenPipeError(32, "Broken pipe"))
                return
            if not self.peer_paused:
                self._deliver(bytes(data))
                return
        self._buffer.extend(data)
        self._maybe_pause_protocol()

    def write_eof(self) -> None:
        if self._tls:
            raise NotImplementedError("SSL doesn't support half-closes")
        if self._closing or self._eof:
            return
        self._eof = True
        if not self._buffer and not self._loop.world_finished():
            self.rec.server_eof_at = self._loop.time()

    def close(self) -> None:
        if self._closing:
            return
        self._closing = True
        if not self._buffer:
            self._conn_lost += 1
            self._loop.call_soon(self._call_connection_lost, None, context=self._ctx)

    def abort(self) -> None:
        self._force_close(None)

    # ---- internals mirroring selector_events
    def _deliver(self, data: bytes) -> None:
        if self._loop.world_finished():
            return
        self.rec.out.extend(data)
        self.rec.out_chunks.append((self._loop.time(), data))
        cl = self.rec.client
        if cl is not None:
            cl.on_server_bytes(data, self._loop.time())

    def _force_close(self, exc: Optional[BaseException]) -> None:
        if self._conn_lost:
            return
        if self._buffer:
            self._buffer.clear()
        if not self._closing:
            self._closing = True
        self._conn_lost += 1
        self._loop.call_soon(self._call_connection_lost, exc, context=self._ctx)

    def _call_connection_lost(self, exc: Optional[BaseException]) -> None:
        if self._lost_called:
            return
        self._lost_called = True
        try:
            self._protocol.connection_lost(exc)
        finally:
            self._sock.close()
            if self.rec.closed_at is None and not self._loop.world_finished():
                self.rec.closed_at = self._loop.time()
            server = self._server
            if server is not None:
                server._detach()
                self._server = None

    # ---- environment side (called through loop.inject at the select() point)
    def env_feed(self, item: Any) -> None:
        """item: bytes (data), 'eof', or an exception instance (read error)."""
        if self._closing:
            return  # the reader was removed: nothing is read any more
        if self._read_paused:
            self._inbox.append(item)
            return
        self._loop.inject(self._read_ready, item, context=self._ctx)

    def _deliver_inbox(self) -> None:
        while self._inbox and not self._read_paused and not self._closing:
            self._read_ready(self._inbox.pop(0))

    def _read_ready(self, item: Any) -> None:
        if self._conn_lost or self._closing:
            return
        if isinstance(item, BaseException):
            self.rec.lost_at = self._loop.time()
            self.rec.lost_seq = self._loop.world.next_seq() if self._loop.world is not None else 0
            self._force_close(item)
        elif item == "eof":
            keep_open = self._protocol.eof_received()
            if not keep_open:
                self.close()
        else:
            self._protocol.data_received(item)

    def env_pause(self) -> None:
        self.peer_paused = True

    def env_resume(self) -> None:
        self.peer_paused = False
        if self._buffer and not self._conn_lost:
            self._loop.inject(self._write_ready, context=self._ctx)

    def _write_ready(self) -> None:
        if self._conn_lost or self.peer_paused or not self._buffer:
            return
        if self.write_fail_armed:
            self.write_fail_armed = False
            self.rec.lost_at = self._loop.time()
            self.rec.lost_seq = self._loop.world.next_seq() if self._loop.world is not None else 0
            self._force_close(BrokenPipeError(32, "Broken pipe"))
            return
        data = bytes(self._buffer)
        self._buffer.clear()
        self._deliver(data)
        self._maybe_resume_protocol()
        if self._closing:
            self._conn_lost += 1
            self._call_connection_lost(None)
        elif self._eof:
            self.rec.server_eof_at = self._loop.time()


class AioWorld(WorldBase):
    engine = "asyncio"
    cancelled_exc = asyncio.CancelledError

    def __init__(self, scenario: dict, chooser: Chooser) -> None:
        super().__init__(scenario, chooser)
        self.loop = VLoop()
        self.loop.world = self
        self.transports: Dict[int, FakeTransport] = {}
        self.servers: List[Any] = []  # TCPServer objects
        self.tcp_of_conn: Dict[int, Any] = {}
        self.handler_tasks: Dict[int, asyncio.Task] = {}
        self.listen_sock: Optional[FakeSocket] = None
        self.shutdown_event: Optional[asyncio.Event] = None
        self.serve_task: Optional[asyncio.Task] = None
        self.config: Any = None
        self.context: Any = None
        self.app: Any = None
        self.lifespan_state: dict = {}

    def now(self) -> float:
        return self.loop._vtime

    # ---- gates / sleeping for scripted apps
    async def wait_gate(self, inst: Instance, name: str) -> None:
        fut = self.loop.create_future()
        self.gate_waiters.setdefault(name, []).append(fut)
        inst.parked_gate = name
        inst.log.append((self.now(), "gate", name))
        try:
            await fut
        finally:
            inst.parked_gate = None
            lst = self.gate_waiters.get(name, [])
            if fut in lst:
                lst.remove(fut)

    async def sleep(self, dt: float) -> None:
        await asyncio.sleep(dt)

    # ---- setup
    def build_config(self) -> Any:
        from hypercorn.config import Config

        # scenario["config_object"]: an existing Config to serve with (e.g. the same object for two serve() calls);
        # scenario["logger_base"]: a RecordingLogger subclass (e.g. one whose access() yields) to record through
        cfg = self.scenario.get("config_object") or Config()
        world = self

        install_logger(self, cfg, "asyncio")  # scenario["logger"] = "real" | "statsd": hypercorn's own logger classes
        for key, value in self.scenario.get("config", {}).items():
            setattr(cfg, key, value)
        return cfg

    def setup(self) -> None:
        from hypercorn.app_wrappers import ASGIWrapper
        from hypercorn.asyncio.worker_context import WorkerContext

        self._patch_time()
        sc = self.scenario
        self.config = self.build_config()
        raw_app = sc.get("app_factory")
        if raw_app is not None:
            self.app = raw_app(self)
        else:
            self.app = ASGIWrapper(ScriptApp(self, sc.get("apps", {})))
        if sc.get("level", "conn") == "serve":
            self._setup_serve()
        else:
            self.context = WorkerContext(sc.get("max_requests"))
            self.lifespan_state = dict(sc.get("lifespan_state", {}))

    def _patch_time(self) -> None:
        import hypercorn.config
        import hypercorn.protocol.http_stream
        import hypercorn.protocol.ws_stream

        base = self.scenario.get("epoch", 1_700_000_000.0)
        fn = lambda: base + self.loop._vtime  # noqa: E731
        hypercorn.config.time = fn
        hypercorn.protocol.http_stream.time = fn
        hypercorn.protocol.ws_stream.time = fn

    def _setup_serve(self) -> None:
        global _CURRENT
        _CURRENT = self
        import hypercorn.asyncio.run as arun
        from hypercorn.config import Sockets

        world = self
        sc = self.scenario

        _install_tcp_wrapper()
        rvals = sc.get("randint")
        if rvals is not None:
            def _randint(a: int, b: int) -> int:
                vals = list(range(a, b + 1))
                return vals[self.chooser.choose(len(vals), "data")]
            arun.randint = _randint
        self.listen_sock = FakeSocket(_socket.AF_INET, None, ("127.0.0.1", 8000))
        self.shutdown_event = asyncio.Event()

        async def trigger() -> None:
            await self.shutdown_event.wait()

        async def serve() -> None:
            await arun.worker_serve(
                self.app, self.config,
                sockets=Sockets([], [self.listen_sock], []),
                shutdown_trigger=None if sc.get("no_trigger") else trigger,
            )

        self.serve_task = self.loop.create_task(serve())

        def done(task: asyncio.Task) -> None:
            if self.finished:
                return
            self.serve_done_at = self.now()
            if task.cancelled():
                self.serve_result = "cancelled"
            elif task.exception() is not None:
                e = task.exception()
                self.serve_result = f"exc:{type(e).__name__}:{e}"
            else:
                self.serve_result = "ok"

        self.serve_task.add_done_callback(done)

    # ---- connections
    def open_conn(self, k: int, opts: dict) -> None:
        from hypercorn.asyncio.tcp_server import TCPServer

        rec = ConnRec(k, opts)
        rec.opened_at = self.now()
        self.conns[k] = rec
        make_client = self.scenario.get("client_factory")
        if make_client is not None:
            rec.client = make_client(self, k, opts)
        family = _socket.AF_INET6 if opts.get("ipv6") else _socket.AF_INET
        if opts.get("unix"):
            family = _socket.AF_UNIX
        peer = opts.get("peer", ("10.0.0.%d" % (k + 1), 40000 + k))
        local = opts.get("local", ("127.0.0.1", 8000))
        if family == _socket.AF_INET6:
            peer = (peer[0], peer[1], 0, 0)
            local = (local[0], local[1], 0, 0)
        sock = FakeSocket(family, peer, local)
        ctx = contextvars.copy_context()
        ctx.run(CONN_K.set, k)
        loop = self.loop
        server = None
        if self.scenario.get("level", "conn") == "serve":
            entry = loop.listening.get(self.listen_sock)
            if entry is None:
                rec.refused = True
                rec.closed_at = self.now()
                return
            factory, server = entry
            protocol = factory()
        else:
            world = self

            async def cb(reader: asyncio.StreamReader, writer: asyncio.StreamWriter) -> None:
                tcp = TCPServer(world.app, loop, world.config, world.context, world.lifespan_state, reader, writer)
                world.servers.append(tcp)
                world.tcp_of_conn[k] = tcp
                world.handler_tasks[k] = asyncio.current_task()
                world._watch_handler(k, asyncio.current_task())
                await tcp.run()

            reader = asyncio.StreamReader(limit=2**16, loop=loop)
            protocol = asyncio.StreamReaderProtocol(reader, cb, loop=loop)
        tr = FakeTransport(loop, protocol, rec, sock, server, bool(opts.get("tls")), opts.get("alpn"), ctx)
        self.transports[k] = tr
        rec.protocol = protocol

    def _watch_handler(self, k: int, task: Any) -> None:
        def done(_t: Any) -> None:
            rec = self.conns.get(k)
            if rec is not None and not self.finished and rec.handler_done_at is None:
                rec.handler_done_at = self.now()

        task.add_done_callback(done)

    # ---- environment events
    def enabled(self, ev: tuple) -> bool:
        kind = ev[0]
        if kind in ("data", "cmd", "eof", "reset"):
            tr = self.transports.get(ev[1])
            rec = self.conns.get(ev[1])
            if tr is None or rec is None or rec.client_eof or rec.client_reset:
                return False
            if tr._closing or tr._conn_lost:
                return False
            if kind == "cmd" and rec.client is not None and not rec.client.cmd_enabled(ev):
                return False
            return True
        if kind in ("pause", "wfail"):
            tr = self.transports.get(ev[1])
            return tr is not None and not tr._conn_lost and not (kind == "pause" and tr.peer_paused)
        if kind == "resume":
            tr = self.transports.get(ev[1])
            return tr is not None and tr.peer_paused
        if kind == "release":
            return self.gate_parked(ev[1])
        if kind == "tick":
            return self.loop.next_deadline() is not None
        if kind == "pause_dt":
            nd = self.loop.next_deadline()
            return nd is None or nd > self.now() + ev[1] + 1e-6
        if kind == "connect":
            return ev[1] not in self.conns
        if kind == "shutdown":
            return self.shutdown_event is not None and not self.shutdown_event.is_set()
        if kind == "terminate":  # conn-level stand-in for "shutdown has begun"
            return self.context is not None and not self.context.terminated.is_set()
        if kind == "wait_status":  # pseudo event: the client has seen a response head (h2: on stream ev[2])
            rec = self.conns.get(ev[1])
            cl = None if rec is None else rec.client
            if cl is None:
                return False
            if cl.h2 is not None and cl.h1 is None:
                st = cl.h2.streams.get(ev[2] if len(ev) > 2 else 1)
                return st is not None and st["status"] is not None
            return cl.h1 is not None and bool(cl.h1.responses)
        if kind == "wait_closed":  # pseudo event: enabled once the server closed connection k
            rec = self.conns.get(ev[1])
            return rec is not None and rec.closed_at is not None
        if kind == "wait_idle":  # pseudo event used to sequence sources: always enabled at quiescence
            return True
        if kind == "call":
            return True
        guard = self.scenario.get("guards", {}).get(kind)
        if guard is not None:  # scenario-defined pseudo event: enabled when its predicate holds, firing is a no-op
            return bool(guard(self, ev))
        raise HarnessError(f"unknown event {ev!r}")

    def fire(self, ev: tuple) -> None:
        kind = ev[0]
        self.events_log.append((self.now(), ev if kind != "call" else ("call",)))
        if kind == "data":
            self.transports[ev[1]].env_feed(ev[2])
        elif kind == "cmd":
            rec = self.conns[ev[1]]
            data = rec.client.command(ev)
            if data:
                self.transports[ev[1]].env_feed(data)
        elif kind == "eof":
            self.conns[ev[1]].client_eof = True
            self.transports[ev[1]].env_feed("eof")
        elif kind == "reset":
            self.conns[ev[1]].client_reset = True
            self.transports[ev[1]].env_feed(ConnectionResetError(104, "Connection reset by peer"))
        elif kind == "pause":
            self.transports[ev[1]].env_pause()
        elif kind == "resume":
            self.transports[ev[1]].env_resume()
        elif kind == "wfail":
            self.transports[ev[1]].write_fail_armed = True
        elif kind == "release":
            for fut in self.gate_waiters.get(ev[1], [])[:1]:
                self.gate_waiters[ev[1]].remove(fut)
                if not fut.done():
                    fut.set_result(None)
        elif kind == "tick":
            nd = self.loop.next_deadline()
            if nd is not None and nd > self.loop._vtime:
                self.loop._vtime = nd
        elif kind == "pause_dt":
            self.loop._vtime += ev[1]
        elif kind == "connect":
            self.open_conn(ev[1], ev[2] if len(ev) > 2 else {})
        elif kind == "shutdown":
            self.shutdown_at = self.now()
            self.shutdown_event.set()
        elif kind == "terminate":
            self.shutdown_at = self.now()
            self.context.terminated._event.set()
        elif kind in ("wait_closed", "wait_idle", "wait_status"):
            pass
        elif kind == "call":
            ev[1](self)

    # ---- run
    def run(self) -> "AioWorld":
        loop = self.loop
        events._set_running_loop(loop)
        import threading

        loop._thread_id = threading.get_ident()
        try:
            self.setup()
            for k, opts in self.scenario.get("conns", {}).items():
                self.open_conn(k, opts)
            monitor = self.scenario.get("monitor")  # called at every quiescent boundary
            while True:
                quiescent = not loop.has_work()
                if quiescent and monitor is not None:
                    monitor(self)
                ev = self.driver.at_boundary(self, quiescent)
                if ev is STOP:
                    break
                if ev is not None:
                    self.fire(ev)
                if quiescent and self.scenario.get("sigs", True):
                    self.sigs.add(self.signature())
                loop.step()
                self.steps += 1
                if self.steps > MAX_STEPS:
                    self.problems.append("livelock: step cap hit")
                    break
            self.finish()
        finally:
            self.teardown()
            loop._thread_id = None
            events._set_running_loop(None)
        return self

    def finish(self) -> None:
        """Record end-of-execution facts before anything is torn down."""
        self.finished = True
        self.sigs.add(self.signature())
        self.drain_instances()
        for k, rec in self.conns.items():
            task = self.handler_tasks.get(k)
            rec.handler_task_done = task.done() if task is not None else None
            if task is not None and task.done():
                if task.cancelled():
                    rec.handler = "cancelled"
                elif task.exception() is not None:
                    rec.handler = f"exc:{_exc_repr(task.exception())}"
                    rec.handler_exc = task.exception()
                else:
                    rec.handler = "ok"
        self.live_tasks = []
        for t in self.loop.all_tasks_ever:
            if not t.done():
                k = t.get_context().get(CONN_K)
                self.live_tasks.append((k, _task_where(t)))
            elif not t.cancelled() and t.exception() is not None and getattr(t, "_log_traceback", False):
                self.exc_contexts.append(
                    {"message": "Task exception was never retrieved", "exception": t.exception(), "task": t}
                )
        self.final_time = self.now()

    def teardown(self) -> None:
        loop = self.loop
        try:
            for _ in range(3):
                pending = [t for t in loop.all_tasks_ever if not t.done()]
                if not pending:
                    break
                for t in pending:
                    t.cancel()
                for _ in range(200):
                    if not loop._ready:
                        break
                    loop.step()
            for t in loop.all_tasks_ever:
                if not t.done():
                    t._log_destroy_pending = False
                elif not t.cancelled():
                    t.exception()  # mark retrieved
            for fut_list in self.gate_waiters.values():
                for fut in fut_list:
                    if not fut.done():
                        fut.cancel()
            loop.world = None
            loop._thread_id = None
            events._set_running_loop(None)
            loop._ready.clear()
            loop._scheduled.clear()
            for job in loop.executor_jobs:
                job.abandon()
            loop.close()
        except Exception as e:  # pragma: no cover
            self.problems.append(f"teardown error {e!r}")
        self._unpatch()

    def _unpatch(self) -> None:
        if self.scenario.get("level", "conn") == "serve":
            import hypercorn.asyncio.run as arun
            from random import randint

            arun.randint = randint

    # ---- generic state signature (reporting only)
    def signature(self) -> tuple:
        parts: List[Any] = [tuple(self.driver.pos)]
        for k in sorted(self.transports):
            tr = self.transports[k]
            tcp = self.tcp_of_conn.get(k)
            parts.append((k, tr._closing, tr._eof, bool(tr._buffer), tr.peer_paused, proto_sig(tcp)))
        parts.append(tuple((i.pc, i.outcome, i.parked_gate) for i in self.instances))
        parts.append(self.loop.next_deadline() is not None)
        return tuple(parts)


_CURRENT: Any = None


def _install_tcp_wrapper() -> None:
    import hypercorn.asyncio.run as arun

    if getattr(arun.TCPServer, "_mc", False):
        return
    orig = arun.TCPServer

    class RecordingTCPServer(orig):  # type: ignore
        _mc = True

        def __init__(self, *a: Any, **kw: Any) -> None:
            super().__init__(*a, **kw)
            w = _CURRENT
            if w is not None:
                w.servers.append(self)
                k = CONN_K.get()
                if k is not None:
                    w.tcp_of_conn[k] = self
                    w.handler_tasks[k] = asyncio.current_task()
                    w._watch_handler(k, asyncio.current_task())

    arun.TCPServer = RecordingTCPServer


def proto_sig(tcp: Any) -> Any:
    if tcp is None:
        return None
    try:
        p = tcp.protocol.protocol
    except AttributeError:
        return "noproto"
    name = type(p).__name__
    if name == "H11Protocol":
        c = p.connection
        st = p.stream
        return (
            "h11", str(getattr(c, "our_state", None)), str(getattr(c, "their_state", None)),
            None if st is None else (type(st).__name__, str(st.state), st.closed), p.keep_alive_requests,
        )
    sts = tuple(sorted((sid, type(s).__name__, str(s.state), s.closed) for sid, s in p.streams.items()))
    bufs = tuple(sorted((sid, len(b.buffer) > 0, b._complete) for sid, b in p.stream_buffers.items()))
    return ("h2", str(p.connection.state_machine.state), sts, bufs, p.closed)


def _exc_repr(e: BaseException) -> str:
    if isinstance(e, BaseExceptionGroup):
        return f"{type(e).__name__}[{', '.join(_exc_repr(x) for x in e.exceptions)}]"
    return f"{type(e).__name__}({str(e)[:80]})"


def _task_where(t: asyncio.Task) -> str:
    coro = t.get_coro()
    frames = []
    while coro is not None:
        fr = getattr(coro, "cr_frame", None) or getattr(coro, "gi_frame", None)
        if fr is None:
            break
        frames.append(f"{fr.f_code.co_name}:{fr.f_lineno}")
        coro = getattr(coro, "cr_await", None) or getattr(coro, "gi_yieldfrom", None)
    return ">".join(frames[-4:]) if frames else repr(t.get_coro())


def run_execution(scenario: dict, prefix: List[int] = ()) -> AioWorld:
    chooser = Chooser(prefix)
    world = AioWorld(scenario, chooser)
    return world.run()
