"""Reference models for C10 / C11: plain Python written from RFC 6455 / RFC 7692 / RFC 8441 and the
ASGI WebSocket specification.  No hypercorn (and no wsproto / h11 / h2) imports here."""
from __future__ import annotations

import base64
import hashlib
import struct
import zlib
from typing import Any, Dict, List, Optional, Tuple

# ---------------------------------------------------------------------------------------------
# C10: messages, sizes, framing (client -> server)

OP_CONT, OP_TEXT, OP_BIN, OP_CLOSE, OP_PING, OP_PONG = 0, 1, 2, 8, 9, 10
MASK = b"\x11\x22\x33\x44"


def msg_wire(msg: tuple) -> bytes:
    """('t', str) | ('b', bytes) -> application payload bytes."""
    return msg[1].encode("utf-8") if msg[0] == "t" else bytes(msg[1])


def msg_size(msg: tuple) -> int:
    """The size the limit applies to: characters for text, bytes for binary."""
    return len(msg[1])


def first_oversize(msgs: Tuple[tuple, ...], limit: int) -> Optional[int]:
    for i, m in enumerate(msgs):
        if msg_size(m) > limit:
            return i
    return None


def expected_receive(msg: tuple) -> Tuple[Optional[bytes], Optional[str]]:
    """(bytes, text) fields of the websocket.receive message for `msg`."""
    return (None, msg[1]) if msg[0] == "t" else (bytes(msg[1]), None)


def frame(opcode: int, payload: bytes, fin: bool = True, rsv1: bool = False) -> bytes:
    """RFC 6455 5.2, client to server (masked)."""
    b0 = (0x80 if fin else 0) | (0x40 if rsv1 else 0) | opcode
    n = len(payload)
    if n < 126:
        head = bytes([b0, 0x80 | n])
    elif n < 65536:
        head = bytes([b0, 0x80 | 126]) + struct.pack("!H", n)
    else:
        head = bytes([b0, 0x80 | 127]) + struct.pack("!Q", n)
    return head + MASK + bytes(b ^ MASK[i % 4] for i, b in enumerate(payload))


def close_frame(code: Optional[int], reason: str = "") -> bytes:
    return frame(OP_CLOSE, b"" if code is None else struct.pack("!H", code) + reason.encode("utf-8"))


def wire_payloads(msgs: Tuple[tuple, ...], deflate: bool) -> List[bytes]:
    """On-wire message payloads.  With permessage-deflate (RFC 7692 7.2.1, context takeover, which is
    what a bare `permessage-deflate` offer negotiates) ONE compressor is shared by all messages, so a
    later message may refer back into an earlier one."""
    if not deflate:
        return [msg_wire(m) for m in msgs]
    comp = zlib.compressobj(wbits=-15)
    out = []
    for m in msgs:
        data = comp.compress(msg_wire(m)) + comp.flush(zlib.Z_SYNC_FLUSH)
        assert data.endswith(b"\x00\x00\xff\xff")
        out.append(data[:-4])
    return out


def message_frames(opcode: int, payload: bytes, cuts: Tuple[int, ...], rsv1: bool) -> List[bytes]:
    bounds = [0] + sorted(cuts) + [len(payload)]
    n = len(bounds) - 1
    return [frame(opcode if i == 0 else OP_CONT, payload[bounds[i]:bounds[i + 1]], fin=(i == n - 1),
                  rsv1=(rsv1 and i == 0)) for i in range(n)]


def decodable_size(msg: tuple, wire_prefix: bytes, deflate: bool, inflater: Any = None) -> int:
    """Upper bound of the accumulated size a receiver can have seen after `wire_prefix` of the message's
    on-wire payload: complete characters (text) or bytes (binary) of the decodable plaintext prefix."""
    if deflate:
        plain = inflater.decompress(wire_prefix)
    else:
        plain = wire_prefix
    if msg[0] == "b":
        return len(plain)
    return len(plain.decode("utf-8", "ignore"))  # 'ignore' drops only the incomplete tail of a valid prefix


def server_frames(raw: bytes) -> List[Tuple[bool, bool, int, bytes]]:
    """RFC 6455 5.2 reader for the server -> client direction (unmasked): (fin, rsv1, opcode, payload) of every
    complete frame at the start of `raw`; stops at the first incomplete (or masked) frame."""
    out: List[Tuple[bool, bool, int, bytes]] = []
    raw = bytes(raw)
    i = 0
    while len(raw) - i >= 2:
        b0, b1 = raw[i], raw[i + 1]
        if b1 & 0x80:
            break
        n = b1 & 0x7F
        j = i + 2
        if n == 126:
            if len(raw) - j < 2:
                break
            n = struct.unpack("!H", raw[j:j + 2])[0]
            j += 2
        elif n == 127:
            if len(raw) - j < 8:
                break
            n = struct.unpack("!Q", raw[j:j + 8])[0]
            j += 8
        if len(raw) - j < n:
            break
        out.append((bool(b0 & 0x80), bool(b0 & 0x40), b0 & 0x0F, raw[j:j + n]))
        i = j + n
    return out


# ---------------------------------------------------------------------------------------------
# C11: handshake validity


def ws_accept_token(key: bytes) -> bytes:
    """RFC 6455 4.2.2 step 5.4."""
    return base64.b64encode(hashlib.sha1(key + b"258EAFA5-E914-47DA-95CA-C5AB0DC85B11").digest())


def _tokens(values: List[bytes]) -> List[str]:
    out = []
    for v in values:
        for t in v.decode("latin1").split(","):
            t = t.strip().lower()
            if t:
                out.append(t)
    return out


def _get(headers: List[Tuple[bytes, bytes]], name: bytes) -> List[bytes]:
    return [v for n, v in headers if n.lower() == name]


def key_wellformed(key: bytes) -> bool:
    try:
        return len(base64.b64decode(key, validate=True)) == 16
    except Exception:
        return False


VALID, INVALID, UNSPEC, NOT_WS = "valid", "invalid", "unspec", "not-ws"


def classify_h1(method: bytes, http_version: bytes, headers: List[Tuple[bytes, bytes]]) -> Tuple[str, bool, str]:
    """(verdict, strict, reason) for an HTTP/1.x request.

    NOT_WS : the request does not ask for the websocket upgrade (RFC 7230 6.7: Upgrade is only meaningful
             together with `Connection: upgrade`): it is an ordinary request, never an upgrade.
    VALID  : RFC 6455 4.2.1 / the property: HTTP/1.1, GET, Upgrade: websocket, Connection: upgrade, a key,
             version 13, each stated once and plainly -> the upgrade must be attempted.
    INVALID: asks for the upgrade but misses a requirement -> never an upgrade.
    UNSPEC : meets the requirements but in a way on which the texts leave the server a choice (several Upgrade
             protocols / Upgrade or Connection header lines, repeated singleton headers with differing values,
             a key that is not 16 base64 bytes): upgrading, refusing with 400 and ignoring the Upgrade are all
             accepted, but the outcome must be a consistent one.
    strict : the request is a GET whose only Upgrade protocol is websocket, stated in one Upgrade and one
             Connection header line: reading it as an ordinary request (RFC 7230 6.7 allows a server to
             ignore Upgrade) is not expected, an invalid one must get the 400.
    reason : short cause for violation keys.
    """
    upg_lines = _get(headers, b"upgrade")
    con_lines = _get(headers, b"connection")
    upg = _tokens(upg_lines)
    con = _tokens(con_lines)
    keys = _get(headers, b"sec-websocket-key")
    vers = [v.strip() for v in _get(headers, b"sec-websocket-version")]
    if "websocket" not in upg or "upgrade" not in con:
        return NOT_WS, False, "no-upgrade-request"
    plain = set(upg) == {"websocket"} and len(upg_lines) == 1 and len(con_lines) == 1
    strict = plain and method == b"GET"
    if method != b"GET":
        return INVALID, strict, "method"
    if http_version != b"1.1":
        return INVALID, strict, "http-version"
    if not keys:
        return INVALID, strict, "no-key"
    if not any(v == b"13" for v in vers):
        return INVALID, strict, "version"
    if len(set(vers)) > 1:
        return UNSPEC, strict, "versions-differ"
    if len(set(keys)) > 1:
        return UNSPEC, strict, "keys-differ"
    if not all(key_wellformed(k) for k in keys):
        return UNSPEC, strict, "key-malformed"
    if not plain:
        return UNSPEC, strict, "upgrade-not-plain"
    return VALID, strict, "valid"


def classify_h2(headers: List[Tuple[bytes, bytes]]) -> Tuple[str, str]:
    """(verdict, reason).  RFC 8441 4: a websocket handshake over HTTP/2 is an *extended* CONNECT, i.e.
    :method CONNECT with :protocol websocket and :scheme, :path, :authority; the property adds version 13."""
    d: Dict[bytes, List[bytes]] = {}
    for n, v in headers:
        d.setdefault(n.lower(), []).append(v)
    if d.get(b":method") != [b"CONNECT"]:
        return NOT_WS, "not-connect"
    proto = d.get(b":protocol")
    if proto is None:
        return INVALID, "plain-connect"  # a tunnel request (RFC 7540 8.3), not a websocket handshake
    if [p.lower() for p in proto] != [b"websocket"]:
        return INVALID, "protocol-not-websocket"
    if b":path" not in d or b":scheme" not in d:
        return INVALID, "no-path-or-scheme"
    vers = [v.strip() for v in d.get(b"sec-websocket-version", [])]
    if not any(v == b"13" for v in vers):
        return INVALID, "version"
    if len(set(vers)) > 1:
        return UNSPEC, "versions-differ"
    if proto != [b"websocket"]:
        return UNSPEC, "protocol-odd-case"
    return VALID, "valid"


# ---------------------------------------------------------------------------------------------
# C11: the application's decision and how it must be rendered


class DecisionModel:
    """ASGI websocket `send` automaton restricted to what C11 judges: the handshake decision.

    feed(msg) for each message the application sent, in order.  `decision` becomes one of
      ('accept', subprotocol|None, extra_headers)     -> 101 (h1) / 200 (h2)
      ('close',)                                      -> 403
      ('response', status, headers, body, complete)   -> exactly that response
      ('bad', why)                                    -> an accept the server must refuse (subprotocol not
                                                         offered / forbidden header); nothing more is judged
    `wire` lists what must reach the client after an accept: ('text', s) | ('bytes', b) | ('close', code).
    """

    def __init__(self, offered: List[str]) -> None:
        self.offered = offered
        self.state = "handshake"
        self.decision: Optional[tuple] = None
        self.wire: List[tuple] = []
        self.undefined = False  # the application left the protocol: later rendering is not judged

    def feed(self, msg: dict) -> None:
        if self.undefined:
            return
        t = msg.get("type")
        st = self.state
        if st == "handshake" and t == "websocket.accept":
            sub = msg.get("subprotocol")
            hdrs = [(bytes(n), bytes(v)) for n, v in msg.get("headers", [])]
            if sub is not None and sub not in self.offered:
                self.decision = ("bad", "subprotocol-not-offered")
                self.undefined = True
            elif any(n.lower() == b"sec-websocket-protocol" or n.startswith(b":") for n, _ in hdrs):
                self.decision = ("bad", "forbidden-header")
                self.undefined = True
            else:
                self.decision = ("accept", sub, hdrs)
                self.state = "connected"
        elif st == "handshake" and t == "websocket.close":
            self.decision = ("close",)
            self.state = "done"
        elif st == "handshake" and t == "websocket.http.response.start":
            self._start = (int(msg["status"]), [(bytes(n), bytes(v)) for n, v in msg.get("headers", [])])
            self.state = "response-start"
        elif st in ("response-start", "response") and t == "websocket.http.response.body":
            body = bytes(msg.get("body", b""))
            more = bool(msg.get("more_body", False))
            prev = self.decision[3] if self.decision is not None else b""
            self.decision = ("response", self._start[0], self._start[1], prev + body, not more)
            self.state = "response" if more else "done"
        elif st == "connected" and t == "websocket.send":
            if msg.get("bytes") is not None:
                self.wire.append(("bytes", bytes(msg["bytes"])))
            elif isinstance(msg.get("text"), str):
                self.wire.append(("text", msg["text"]))
            else:
                self.undefined = True
        elif st == "connected" and t == "websocket.close":
            self.wire.append(("close", int(msg.get("code", 1000))))
            self.state = "closed"
        else:
            self.undefined = True
