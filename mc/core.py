"""Engine-independent core: choosers, sources/driver, scripted applications, observations.

One *execution* is a deterministic function of (scenario, choice sequence).  The two engines
(mc.aio for asyncio, mc.tri for trio) call `Driver.at_boundary()` at every scheduling boundary
(the place where a real event loop would poll for I/O) and apply the event it returns.
"""
from __future__ import annotations

import hashlib
from typing import Any, Callable, Dict, List, Optional, Tuple


class HarnessError(Exception):
    """The harness, not hypercorn, is wrong (bad replay prefix, unrealisable environment...)."""


class AppCrash(Exception):
    """Raised by scripted applications for the 'raise' op."""


# ---------------------------------------------------------------------------------------------
# choice points


class Point:
    __slots__ = ("n", "choice", "kind", "info")

    def __init__(self, n: int, choice: int, kind: str, info: Any = None) -> None:
        self.n = n
        self.choice = choice
        self.kind = kind
        self.info = info

    def __repr__(self) -> str:
        return f"P({self.kind},{self.choice}/{self.n})"


class Chooser:
    """Replays `prefix`, then answers 0 (the default) at every later choice point."""

    def __init__(self, prefix: List[int] = ()) -> None:
        self.prefix = list(prefix)
        self.trace: List[Point] = []

    def choose(self, n: int, kind: str, info: Any = None) -> int:
        if n <= 1:
            return 0
        i = len(self.trace)
        if i < len(self.prefix):
            c = self.prefix[i]
            if c >= n:
                raise HarnessError(f"replay divergence: choice {c} of {n} at point {i} ({kind})")
        else:
            c = 0
        self.trace.append(Point(n, c, kind, info))
        return c

    @property
    def choices(self) -> List[int]:
        return [p.choice for p in self.trace]


# cost class of each choice kind: which bound an alternative (non-default) answer consumes
COST = {
    "mid": "M",  # inject an environment event while the server still has runnable work
    "q_pre": "S",  # at quiescence, switch away from a source that could continue
    "q_free": None,  # at quiescence, the source that fired last cannot continue: free choice
    "data": None,  # scenario-declared data choice: always fully enumerated
    "rev": "R",  # trio: reverse this tick's batch
    "wake": "R",  # trio: order in which Event.set() wakes several waiters
}

STOP = ("__stop__",)


class Driver:
    """Sequential sources of environment events, interleaved by the chooser."""

    def __init__(self, scenario: dict, chooser: Chooser) -> None:
        self.chooser = chooser
        self.sources: List[Tuple[str, list]] = [(n, list(evs)) for n, evs in scenario["sources"]]
        self.pos = [0] * len(self.sources)
        self.last: Optional[int] = None
        self.midflight = scenario.get("midflight", True)
        self.fired: List[Tuple[Any, tuple]] = []

    def heads(self, world: "WorldBase", quiescent: bool = True) -> List[int]:
        res = []
        for i, (_, evs) in enumerate(self.sources):
            if self.pos[i] < len(evs):
                ev = evs[self.pos[i]]
                if not quiescent and ev[0] in ("tick", "pause_dt"):
                    continue  # time only passes when the server has nothing left to do
                if world.enabled(ev):
                    res.append(i)
        return res

    def remaining(self) -> int:
        return sum(len(evs) - self.pos[i] for i, (_, evs) in enumerate(self.sources))

    def at_boundary(self, world: "WorldBase", quiescent: bool) -> Optional[tuple]:
        heads = self.heads(world, quiescent)
        if not quiescent:
            if not heads or not self.midflight:
                return None
            c = self.chooser.choose(1 + len(heads), "mid")
            if c == 0:
                return None
            i = heads[c - 1]
        else:
            if not heads:
                return STOP
            if self.last in heads:
                order = [self.last] + [h for h in heads if h != self.last]
                kind = "q_pre"
            else:
                order = heads
                kind = "q_free"
            i = order[self.chooser.choose(len(order), kind)]
        ev = self.sources[i][1][self.pos[i]]
        self.pos[i] += 1
        self.last = i
        self.fired.append((world.now(), ev))
        return ev


# ---------------------------------------------------------------------------------------------
# observations


class Instance:
    """One application instance (one call of the ASGI callable)."""

    def __init__(self, idx: int, scope: dict, t: float) -> None:
        self.idx = idx
        self.scope = scope
        self.t_start = t
        self.log: List[tuple] = []  # (t, what, detail)
        self.received: List[dict] = []  # messages returned by receive()
        self.drained: List[dict] = []  # messages left in the receive queue at the end
        self.sends: List[tuple] = []  # (t0, t1|None, message, outcome)  outcome: ok | exception name | pending
        self.outcome: Optional[str] = None  # returned | raised:<X> | cancelled | running
        self.t_end: Optional[float] = None
        self.receive_callable: Any = None
        self.recv_seq: List[int] = []  # world sequence number of each received message
        self.send_seq: List[list] = []  # [seq at call, seq at return] per entry of .sends
        self.seq_start = 0
        self.parked_gate: Optional[str] = None
        self.pc = 0

    @property
    def type(self) -> str:
        return self.scope["type"]

    def delivered(self) -> List[dict]:
        return self.received + self.drained


class ConnRec:
    """What the environment saw of one connection."""

    def __init__(self, k: int, opts: dict) -> None:
        self.k = k
        self.opts = opts
        self.out = bytearray()  # every byte the server wrote that reached the peer
        self.out_chunks: List[Tuple[float, bytes]] = []
        self.server_eof_at: Optional[float] = None
        self.closed_at: Optional[float] = None  # server closed / aborted its side
        self.lost_at: Optional[float] = None  # peer loss (reset / write failure) seen by transport
        self.lost_seq: Optional[int] = None  # logical-clock stamp of that loss
        self.client_eof = False
        self.client_reset = False
        self.opened_at: float = 0.0
        self.handler: Optional[str] = None  # None while running; 'ok' | 'exc:<repr>' | 'cancelled'
        self.handler_done_at: Optional[float] = None
        self.client: Any = None  # client-side protocol driver
        self.refused = False


class RecordingLogger:
    """config.logger_class: records every call instead of writing anywhere."""

    world: "WorldBase" = None  # set on a per-execution subclass

    def __init__(self, config: Any) -> None:
        self.access_log_format = config.access_log_format

    async def access(self, request: dict, response: Any, request_time: float) -> None:
        w = self.world
        if w.finished:
            return
        status = None if response is None else response.get("status")
        w.access.append((w.now(), id(request), request.get("type"), request.get("path"), status, request))

    def _rec(self, level: str, message: str, args: tuple) -> None:
        w = self.world
        if w.finished:
            return
        import sys

        exc = sys.exc_info()[1] if level == "exception" else None
        w.logrec.append((w.now(), level, str(message), type(exc).__name__ if exc is not None else None))

    async def critical(self, message: str, *args: Any, **kwargs: Any) -> None:
        self._rec("critical", message, args)

    async def error(self, message: str, *args: Any, **kwargs: Any) -> None:
        self._rec("error", message, args)

    async def warning(self, message: str, *args: Any, **kwargs: Any) -> None:
        self._rec("warning", message, args)

    async def info(self, message: str, *args: Any, **kwargs: Any) -> None:
        self._rec("info", message, args)

    async def debug(self, message: str, *args: Any, **kwargs: Any) -> None:
        self._rec("debug", message, args)

    async def exception(self, message: str, *args: Any, **kwargs: Any) -> None:
        self._rec("exception", message, args)

    async def log(self, level: int, message: str, *args: Any, **kwargs: Any) -> None:
        self._rec(f"log{level}", message, args)



def real_logger_class(world: "WorldBase", engine: str, statsd: bool) -> Any:
    """scenario["logger"] = "real" | "statsd": hypercorn's OWN logger classes record, not a stand-in.

    The shipped `hypercorn.logging.Logger` (or the worker's `StatsdLogger`, which `config.statsd_host` selects through
    `set_statsd_logger_class` exactly as `asyncio/run.py` / `trio/run.py` do) is instantiated by `config.log`; what it
    writes goes to two private `logging.Logger` objects handed over as `config.accesslog` / `config.errorlog`
    (hypercorn uses a Logger instance given there as it is), whose handlers append to `world.access` /
    `world.logrec` in the same format as RecordingLogger.  An access record therefore exists only if the real
    `Logger.access` -> `atoms()` -> `AccessLogAtoms` -> `%`-formatting with the configured `access_log_format` went
    through.  UDP is owned: asyncio's `create_datagram_endpoint` is VLoop's (one yield, fake transport), the trio
    logger's socket is replaced by one whose `sendto` is a checkpoint; datagrams are kept in `world.statsd`.
    """
    import logging as _logging

    from hypercorn.logging import Logger as _RealLogger

    if statsd:
        if engine == "trio":
            from hypercorn.trio.statsd import StatsdLogger as _Base
        else:
            from hypercorn.asyncio.statsd import StatsdLogger as _Base
    else:
        _Base = _RealLogger
    world.statsd = []

    class _AccessHandler(_logging.Handler):
        def emit(self, record: Any) -> None:
            if world.finished:
                return
            record.getMessage()  # the configured format applied to the atoms: raises exactly where hypercorn's handler would
            atoms = record.args if isinstance(record.args, dict) else {}
            request = getattr(atoms, "_verif_request", None)
            status_s = atoms.get("s")
            status = int(status_s) if isinstance(status_s, str) and status_s.isdigit() else None
            if request is None:
                world.access.append((world.now(), id(atoms), None, atoms.get("U"), status, {}))
            else:
                world.access.append((world.now(), id(request), request.get("type"), request.get("path"), status, request))

    class _ErrorHandler(_logging.Handler):
        def emit(self, record: Any) -> None:
            if world.finished:
                return
            exc = record.exc_info[1] if record.exc_info else None
            level = "exception" if exc is not None and record.levelno == _logging.ERROR else record.levelname.lower()
            world.logrec.append((world.now(), level, str(record.msg), type(exc).__name__ if exc is not None else None))

    class _FakeUDP:
        async def sendto(self, message: bytes, address: Any) -> None:
            import trio

            await trio.lowlevel.checkpoint()
            if not world.finished:
                world.statsd.append(bytes(message))

        def close(self) -> None:
            pass

    class _Logger(_Base):  # type: ignore[misc,valid-type]
        def __init__(self, config: Any) -> None:
            super().__init__(config)
            if statsd and engine == "trio":
                self.socket.close()
                self.socket = _FakeUDP()

        def atoms(self, request: Any, response: Any, request_time: float) -> Any:
            a = super().atoms(request, response, request_time)
            try:
                a._verif_request = request
            except Exception:
                pass
            return a

    access_logger = _logging.Logger("verif.access")
    access_logger.addHandler(_AccessHandler())
    error_logger = _logging.Logger("verif.error")
    error_logger.addHandler(_ErrorHandler())
    _Logger._verif_loggers = (access_logger, error_logger)
    return _Logger


def install_logger(world: "WorldBase", cfg: Any, engine: str) -> None:
    kind = world.scenario.get("logger")
    if kind in ("real", "statsd"):
        cls = real_logger_class(world, engine, kind == "statsd")
        cfg.accesslog, cfg.errorlog = cls._verif_loggers
        if kind == "statsd":
            from hypercorn.logging import Logger as _RealLogger

            cfg.logger_class = _RealLogger
            cfg.statsd_host = "127.0.0.1:8125"
            cfg.set_statsd_logger_class(cls)  # the call asyncio/run.py and trio/run.py make before worker_serve
        else:
            cfg.logger_class = cls
        return

    class _Logger(world.scenario.get("logger_base") or RecordingLogger):  # type: ignore[misc]
        pass

    _Logger.world = world
    cfg.logger_class = _Logger


# ---------------------------------------------------------------------------------------------
# scripted applications


def select_program(apps: Dict[str, list], scope: dict) -> list:
    t = scope["type"]
    if t != "lifespan":
        key = f"{t}:{scope.get('path')}"
        if key in apps:
            return apps[key]
    if t in apps:
        return apps[t]
    if "*" in apps:
        return apps["*"]
    if t == "lifespan":
        return [("raise",)]  # "lifespan not supported"
    raise HarnessError(f"no scripted program for scope {t} {scope.get('path')}")


class ScriptApp:
    """ASGI application interpreting tiny programs.

    ops: ('recv',) ('recv_body',) ('recv_until_disconnect',) ('send', msg) ('gate', name)
         ('sleep', dt) ('raise',) ('return',) ('cancel',) ('echo_ws',) ('set_state', k, v)
         ('log_state',) ('send_seq', [msgs])
    """

    def __init__(self, world: "WorldBase", apps: Dict[str, list]) -> None:
        self.world = world
        self.apps = apps

    async def __call__(self, scope: dict, receive: Callable, send: Callable) -> None:
        w = self.world
        inst = Instance(len(w.instances), scope, w.now())
        inst.receive_callable = receive
        w.instances.append(inst)
        w.on_instance(inst)
        program = select_program(self.apps, scope)
        inst.outcome = "running"
        try:
            await self._run(inst, program, receive, send)
        except (AppCrash, ExceptionGroup):
            if not w.finished:
                inst.outcome = "raised:AppCrash"
                inst.t_end = w.now()
                inst.seq_end = w.next_seq()
            raise
        except w.cancelled_exc:
            if not w.finished:
                inst.outcome = "cancelled"
                inst.t_end = w.now()
                inst.seq_end = w.next_seq()
            raise
        except BaseException as e:  # an exception the server threw into the app (send raised...)
            if not w.finished:
                inst.outcome = f"raised:{type(e).__name__}"
                inst.t_end = w.now()
                inst.seq_end = w.next_seq()
            raise
        else:
            if not w.finished:
                inst.outcome = "returned"
                inst.t_end = w.now()
                inst.seq_end = w.next_seq()

    async def _recv(self, inst: Instance, receive: Callable) -> dict:
        w = self.world
        m = await receive()
        if w.finished:
            return m
        inst.received.append(m)
        inst.recv_seq.append(w.next_seq())
        inst.log.append((w.now(), "recv", m))
        return m

    async def _send(self, inst: Instance, send: Callable, msg: dict) -> Optional[str]:
        w = self.world
        rec = [w.now(), None, msg, "pending"]
        seqs = [w.next_seq(), None]  # logical-clock stamps of the call and of its return
        inst.sends.append(rec)
        inst.send_seq.append(seqs)
        try:
            await send(dict(msg))
        except w.cancelled_exc:
            if not w.finished:
                rec[1] = w.now()
                rec[3] = "cancelled"
            raise
        except Exception as e:
            if not w.finished:
                rec[1] = w.now()
                rec[3] = type(e).__name__
                inst.log.append((w.now(), "send_raised", type(e).__name__))
            inst.last_send_exc = e
            return type(e).__name__
        if w.finished:
            return None
        rec[1] = w.now()
        rec[3] = "ok"
        seqs[1] = w.next_seq()
        inst.log.append((w.now(), "sent", msg.get("type")))
        return None

    async def _run(self, inst: Instance, program: list, receive: Callable, send: Callable) -> None:
        w = self.world
        for pc, op in enumerate(program):
            inst.pc = pc
            kind = op[0]
            if kind == "recv":
                await self._recv(inst, receive)
            elif kind == "recv_body":
                while True:
                    m = await self._recv(inst, receive)
                    if m["type"] != "http.request" or not m.get("more_body", False):
                        break
            elif kind == "recv_until_disconnect":
                while True:
                    m = await self._recv(inst, receive)
                    if m["type"].endswith("disconnect"):
                        break
            elif kind == "send":
                await self._send(inst, send, op[1])
            elif kind == "send_strict":  # like an application that does not catch: what send() raised propagates
                err = await self._send(inst, send, op[1])
                if err is not None:
                    raise inst.last_send_exc
            elif kind == "send_finally":  # try: await send(msg) / finally: await sleep(dt)  (slow unwinding)
                try:
                    err = await self._send(inst, send, op[1])
                    if err is not None:
                        raise inst.last_send_exc
                finally:
                    await w.sleep(op[2])
            elif kind == "gate":
                await w.wait_gate(inst, op[1])
            elif kind == "sleep":
                await w.sleep(op[1])
            elif kind == "raise":
                raise AppCrash()
            elif kind == "raise_group":  # what an application running its own task group / nursery raises
                raise ExceptionGroup("application task group", [AppCrash()])
            elif kind == "return":
                return
            elif kind == "cancel":
                raise w.cancelled_exc()
            elif kind == "echo_ws":
                while True:
                    m = await self._recv(inst, receive)
                    if m["type"] == "websocket.receive":
                        await self._send(
                            inst,
                            send,
                            {"type": "websocket.send", "bytes": m.get("bytes"), "text": m.get("text")},
                        )
                    elif m["type"] == "websocket.disconnect":
                        return
            elif kind == "set_state":
                inst.scope["state"][op[1]] = op[2]
            elif kind == "log_state":
                inst.log.append((w.now(), "state", dict(inst.scope["state"])))
            elif kind == "lifespan_loop":  # well-behaved lifespan app
                while True:
                    m = await self._recv(inst, receive)
                    if m["type"] == "lifespan.startup":
                        await self._send(inst, send, {"type": "lifespan.startup.complete"})
                    elif m["type"] == "lifespan.shutdown":
                        await self._send(inst, send, {"type": "lifespan.shutdown.complete"})
                        return
            else:
                raise HarnessError(f"unknown app op {op!r}")
        inst.pc = len(program)


# ---------------------------------------------------------------------------------------------
# world base


class WorldBase:
    cancelled_exc: type = BaseException
    engine = "?"

    def __init__(self, scenario: dict, chooser: Chooser) -> None:
        self.scenario = scenario
        self.chooser = chooser
        self.driver = Driver(scenario, chooser)
        self.conns: Dict[int, ConnRec] = {}
        self.instances: List[Instance] = []
        self.logrec: List[tuple] = []
        self.access: List[tuple] = []
        self.exc_contexts: List[dict] = []
        self.gate_waiters: Dict[str, list] = {}
        self.problems: List[str] = []  # harness-level anomalies (livelock, leaked tasks)
        self.steps = 0
        self.sigs: set = set()
        self.serve_result: Optional[str] = None
        self.serve_done_at: Optional[float] = None
        self.shutdown_at: Optional[float] = None
        self.events_log: List[tuple] = []
        self.finished = False  # set at final quiescence: nothing is recorded during teardown

    def next_seq(self) -> int:
        """A logical clock: orders observations that happen at the same virtual instant."""
        self._seq = getattr(self, "_seq", 0) + 1
        return self._seq

    # --- to be provided by engines
    def now(self) -> float:
        raise NotImplementedError

    def on_instance(self, inst: Instance) -> None:
        # how many bytes the server had written on each connection when this instance was created
        inst.seq_start = self.next_seq()
        inst.out_len = {k: len(rec.out) for k, rec in self.conns.items()}
        inst.seq = len(self.driver.fired)

    # --- gates
    async def wait_gate(self, inst: Instance, name: str) -> None:
        raise NotImplementedError

    def gate_parked(self, name: str) -> bool:
        return bool(self.gate_waiters.get(name))

    # --- helpers shared by oracles
    def app_config(self) -> dict:
        return self.scenario.get("config", {})

    def drain_instances(self) -> None:
        for inst in self.instances:
            rc = inst.receive_callable
            owner = getattr(rc, "__self__", None)
            if owner is None:
                continue
            getter = getattr(owner, "get_nowait", None) or getattr(owner, "receive_nowait", None)
            if getter is None:
                continue
            while True:
                try:
                    inst.drained.append(getter())
                except Exception:
                    break


def digest(obj: Any) -> str:
    return hashlib.sha1(repr(obj).encode("utf8", "backslashreplace")).hexdigest()[:16]
