"""C04 helpers that are *independent of hypercorn*: reference judgements and wire-level tools.

* `h1_expect(segments, eof)`      - what RFC 7230 as implemented by a fresh h11 SERVER connection says about the
                                    client bytes, assuming a compliant server that answers every complete request
                                    with a complete response: the request methods seen, and whether/where the input
                                    is malformed together with the status hint.
* `h2_expect(segments)`           - whether a fresh h2 *server* connection (same advertised SETTINGS as the server
                                    under test, never answering) treats the client bytes as a connection error.
* `H2FrameView`                   - frame-level reader of the server's HTTP/2 output (own 9-byte header parser + an
                                    hpack decoder); no connection state machine, so it also reads answers to
                                    sessions the sender never legally could have produced.
* raw frame writers               - HTTP/2 frames with literal (never indexed) HPACK, so a frame's bytes do not depend
                                    on what was sent before.
"""
from __future__ import annotations

import struct
from typing import Any, Dict, List, Optional, Tuple

import h2.config
import h2.connection
import h2.events
import h2.exceptions
import h2.settings
import h11
from hpack import Decoder

from .clients import Client, WSParser

# ---------------------------------------------------------------------------------------------
# HTTP/1 reference


def h1_expect(segments: List[bytes], eof: bool, max_incomplete: int = 16 * 1024,
              server_names: Optional[List[str]] = None) -> dict:
    """Judgement of an HTTP/1 client byte stream.

    Returns {"methods": [...], "verdict": v} with v one of
      ("ok",)                  nothing malformed in what was sent
      ("malformed", n, hint)   request number n (0 based) is malformed; n complete requests precede it
      ("unjudged", why)        the stream leaves plain HTTP/1 (upgrade, CONNECT, PRI, connection: close, 1.0):
                               what follows is not HTTP/1 request syntax any more, nothing is demanded
    server_names (the configuration option): a request whose Host value is not one of them is answered 404 and the
    connection is not reused (documented: "requests to different hosts will be responded to with 404s"): unjudged from there.
    The model answers each request the moment it is complete (that is what the scripted application does), so a
    malformed request is always met before its response has started: a status line can still be sent.
    """
    conn = h11.Connection(h11.SERVER, max_incomplete_event_size=max_incomplete)
    methods: List[bytes] = []
    done = 0
    feed = list(segments) + ([b""] if eof else [])
    for seg in feed:
        conn.receive_data(seg)
        while True:
            try:
                ev = conn.next_event()
            except h11.RemoteProtocolError as e:
                return {"methods": methods, "verdict": ("malformed", done, int(e.error_status_hint))}
            if ev is h11.NEED_DATA or ev is h11.PAUSED or isinstance(ev, h11.ConnectionClosed):
                break
            if isinstance(ev, h11.Request):
                methods.append(bytes(ev.method))
                names = {bytes(n).lower() for n, _ in ev.headers}
                if b"upgrade" in names or ev.method in (b"CONNECT", b"PRI") or b"expect" in names:
                    return {"methods": methods, "verdict": ("unjudged", "leaves plain HTTP/1")}
                if server_names:
                    hosts = [bytes(v).decode("utf-8", "replace") for n, v in ev.headers if bytes(n).lower() == b"host"]
                    if not hosts or hosts[0] not in server_names:
                        return {"methods": methods, "verdict": ("unjudged", "unknown server name")}
            elif isinstance(ev, h11.EndOfMessage):
                conn.send(h11.Response(status_code=200, headers=[("content-length", "3")]))
                conn.send(h11.Data(data=b"abc"))
                conn.send(h11.EndOfMessage())
                done += 1
                if conn.our_state is h11.DONE and conn.their_state is h11.DONE:
                    conn.start_next_cycle()
                else:
                    return {"methods": methods, "verdict": ("unjudged", "connection not reusable")}
        if isinstance(ev, h11.ConnectionClosed):
            break
    return {"methods": methods, "verdict": ("ok",)}


# ---------------------------------------------------------------------------------------------
# HTTP/2 reference

# The SETTINGS the server under test advertises by default (documented configuration defaults).
SERVER_SETTINGS = {
    h2.settings.SettingCodes.MAX_CONCURRENT_STREAMS: 100,
    h2.settings.SettingCodes.MAX_HEADER_LIST_SIZE: 2**16,
    h2.settings.SettingCodes.ENABLE_CONNECT_PROTOCOL: 1,
}


def ref_server() -> h2.connection.H2Connection:
    conn = h2.connection.H2Connection(config=h2.config.H2Configuration(client_side=False, header_encoding=None))
    conn.local_settings = h2.settings.Settings(client=False, initial_values=dict(SERVER_SETTINGS))
    conn.initiate_connection()
    conn.data_to_send()
    return conn


def server_settings_frame() -> bytes:
    conn = h2.connection.H2Connection(config=h2.config.H2Configuration(client_side=False, header_encoding=None))
    conn.local_settings = h2.settings.Settings(client=False, initial_values=dict(SERVER_SETTINGS))
    conn.initiate_connection()
    return conn.data_to_send()


def h2_expect(segments: List[bytes]) -> Optional[str]:
    """Name of the connection error a never-answering reference server raises on the client bytes, or None.

    A server that has answered has streams that are *more* closed and send windows that are *smaller* than the
    reference's, so everything the reference rejects the real connection rejects as well (used in that direction
    only: reference error => the server must have ended the connection).  Exception: the concurrency limit - requests
    the real server has long answered still count as open here; callers that send more than 100 complete requests
    (mixed floods) hand in the segments without them."""
    conn = ref_server()
    for seg in segments:
        try:
            events = conn.receive_data(seg)
        except h2.exceptions.ProtocolError as e:
            return type(e).__name__
        for ev in events:
            if isinstance(ev, h2.events.DataReceived):
                try:
                    conn.acknowledge_received_data(ev.flow_controlled_length, ev.stream_id)
                except Exception:
                    pass
        conn.data_to_send()
    return None


# ---------------------------------------------------------------------------------------------
# frame-level view of server output

F_DATA, F_HEADERS, F_PRIORITY, F_RST, F_SETTINGS, F_PUSH, F_PING, F_GOAWAY, F_WINUP, F_CONT = range(10)


class H2FrameView:
    """Reads HTTP/2 frames without any stream state machine (attribute-compatible with clients.H2Client)."""

    def __init__(self) -> None:
        self.buf = bytearray()
        self.dec = Decoder()
        self.dec.max_allowed_table_size = 65536
        self.streams: Dict[int, dict] = {}
        self.goaway: Optional[tuple] = None
        self.error: Optional[str] = None
        self.frames: List[tuple] = []  # (type, flags, sid, len)
        self.ws: Dict[int, WSParser] = {}
        self.started = True
        self.pending = bytearray()
        self._block: Optional[Tuple[int, int, bytearray]] = None  # (sid, flags of the HEADERS frame, fragment)
        self.settings_acks = 0
        self.ping_acks = 0
        self.skipped: List[tuple] = []  # (parse-only: never refuses a command; read by harness.describe)

    def stream(self, sid: int) -> dict:
        if sid not in self.streams:
            self.streams[sid] = {"status": None, "headers": None, "informational": [], "body": b"", "chunks": [],
                                 "ended": 0, "reset": None, "trailers": None, "pushes": [], "t_head": None,
                                 "t_end": None}
        return self.streams[sid]

    def feed(self, data: bytes, t: float) -> None:
        if self.error is not None:
            return
        self.buf.extend(data)
        try:
            while len(self.buf) >= 9:
                n = int.from_bytes(self.buf[0:3], "big")
                if len(self.buf) < 9 + n:
                    break
                ftype, flags = self.buf[3], self.buf[4]
                sid = int.from_bytes(self.buf[5:9], "big") & 0x7FFFFFFF
                payload = bytes(self.buf[9:9 + n])
                del self.buf[:9 + n]
                self.frames.append((ftype, flags, sid, n))
                self._frame(ftype, flags, sid, payload, t)
        except Exception as e:  # malformed server output
            self.error = f"{type(e).__name__}: {e}"

    @staticmethod
    def _unpad(flags: int, payload: bytes) -> bytes:
        if flags & 0x8:
            pad = payload[0]
            payload = payload[1:len(payload) - pad]
        return payload

    def _frame(self, ftype: int, flags: int, sid: int, payload: bytes, t: float) -> None:
        if self._block is not None and ftype != F_CONT:
            raise ValueError("frame inside a header block")
        if ftype == F_DATA:
            body = self._unpad(flags, payload)
            st = self.stream(sid)
            st["body"] += body
            st["chunks"].append((t, len(body)))
            if sid in self.ws:
                self.ws[sid].feed(body, t)
            if flags & 0x1:
                st["ended"] += 1
                st["t_end"] = t
        elif ftype in (F_HEADERS, F_PUSH):
            frag = self._unpad(flags, payload)
            if ftype == F_HEADERS and flags & 0x20:
                frag = frag[5:]
            if ftype == F_PUSH:
                frag = frag[4:]
            self._block = (sid, flags if ftype == F_HEADERS else 0, bytearray(frag))
            if flags & 0x4:
                self._end_block(t)
        elif ftype == F_CONT:
            if self._block is None or self._block[0] != sid:
                raise ValueError("stray CONTINUATION")
            self._block[2].extend(payload)
            if flags & 0x4:
                self._end_block(t)
        elif ftype == F_RST:
            st = self.stream(sid)
            st["reset"] = int.from_bytes(payload[:4], "big")
            st["t_end"] = t
        elif ftype == F_GOAWAY:
            last = int.from_bytes(payload[0:4], "big") & 0x7FFFFFFF
            code = int.from_bytes(payload[4:8], "big")
            if self.goaway is None:
                self.goaway = (code, last, t)
        elif ftype == F_SETTINGS:
            if flags & 0x1:
                self.settings_acks += 1
        elif ftype == F_PING:
            if flags & 0x1:
                self.ping_acks += 1

    def _end_block(self, t: float) -> None:
        assert self._block is not None
        sid, flags, frag = self._block
        self._block = None
        hd = [(bytes(n), bytes(v)) for n, v in self.dec.decode(bytes(frag), raw=True)]
        st = self.stream(sid)
        status = dict(hd).get(b":status")
        plain = [(n, v) for n, v in hd if not n.startswith(b":")]
        if status is None:
            if st["status"] is None:
                st["pushes"].append((sid, hd))  # a request block (push promise)
            else:
                st["trailers"] = plain
        elif status.isdigit() and int(status) < 200 and int(status) != 101:
            st["informational"].append((int(status), plain))
        else:
            st["status"] = int(status) if status.isdigit() else -1
            st["headers"] = plain
            st["t_head"] = t
        if flags & 0x1:
            st["ended"] += 1
            st["t_end"] = t


class RawClient(Client):
    """mc.clients.Client whose HTTP/2 side is the stateless frame view (parse only, never produces bytes)."""

    def __init__(self, opts: dict) -> None:
        super().__init__(opts)
        if self.h2 is not None:
            self.h2 = H2FrameView()  # type: ignore[assignment]
            for sid in opts.get("ws_streams", ()):
                self.h2.ws[sid] = WSParser(deflate=opts.get("deflate", False))
            if self.h1 is not None and self.carrier == "h2c":
                self.h1.on_switch_data = self.h2.feed

    def command(self, ev: tuple) -> bytes:  # pragma: no cover - raw sessions carry bytes, not commands
        raise NotImplementedError("RawClient is parse-only")

    def cmd_enabled(self, ev: tuple) -> bool:
        return False


def make_raw_client(world: Any, k: int, opts: dict) -> RawClient:
    return RawClient(opts)


# ---------------------------------------------------------------------------------------------
# raw HTTP/2 frame writers

PREFACE = b"PRI * HTTP/2.0\r\n\r\nSM\r\n\r\n"


def frame(ftype: int, flags: int, sid: int, payload: bytes = b"") -> bytes:
    return struct.pack("!I", len(payload))[1:] + bytes([ftype, flags]) + struct.pack("!I", sid & 0x7FFFFFFF) + payload


def _hpack_int(value: int, prefix_bits: int, first: int) -> bytes:
    limit = (1 << prefix_bits) - 1
    if value < limit:
        return bytes([first | value])
    out = bytearray([first | limit])
    value -= limit
    while value >= 128:
        out.append((value & 0x7F) | 0x80)
        value >>= 7
    out.append(value)
    return bytes(out)


def hpack_literal(headers: List[Tuple[bytes, bytes]]) -> bytes:
    """Header block using only 'literal header field without indexing - new name' and no Huffman coding."""
    out = bytearray()
    for name, value in headers:
        out += b"\x00" + _hpack_int(len(name), 7, 0) + name + _hpack_int(len(value), 7, 0) + value
    return bytes(out)


def f_headers(sid: int, headers: List[Tuple[bytes, bytes]], end_stream: bool, pad: int = 0,
              priority: Optional[Tuple[int, int, bool]] = None, split: bool = False) -> bytes:
    """HEADERS (+ CONTINUATION when split); priority = (depends_on, weight 1..256, exclusive)."""
    block = hpack_literal(headers)
    flags = 0x1 if end_stream else 0
    head = b""
    if priority is not None:
        dep, weight, excl = priority
        head = struct.pack("!IB", (dep & 0x7FFFFFFF) | (0x80000000 if excl else 0), weight - 1)
        flags |= 0x20
    rest = b""
    if split:
        cut = max(1, len(block) // 2)
        block, rest = block[:cut], block[cut:]
    else:
        flags |= 0x4
    payload = head + block
    if pad:
        payload = bytes([pad]) + payload + b"\x00" * pad
        flags |= 0x8
    out = frame(F_HEADERS, flags, sid, payload)
    if split:
        out += frame(F_CONT, 0x4, sid, rest)
    return out


def f_data(sid: int, data: bytes, end_stream: bool, pad: int = 0) -> bytes:
    flags = 0x1 if end_stream else 0
    if pad:
        data = bytes([pad]) + data + b"\x00" * pad
        flags |= 0x8
    return frame(F_DATA, flags, sid, data)


def f_priority(sid: int, depends_on: int, weight: int, exclusive: bool = False) -> bytes:
    return frame(F_PRIORITY, 0, sid,
                 struct.pack("!IB", (depends_on & 0x7FFFFFFF) | (0x80000000 if exclusive else 0), weight - 1))


def f_rst(sid: int, code: int = 8) -> bytes:
    return frame(F_RST, 0, sid, struct.pack("!I", code))


def f_settings(values: Dict[int, int], ack: bool = False) -> bytes:
    return frame(F_SETTINGS, 0x1 if ack else 0, 0, b"".join(struct.pack("!HI", k, v) for k, v in values.items()))


def f_ping(data: bytes = b"12345678", ack: bool = False) -> bytes:
    return frame(F_PING, 0x1 if ack else 0, 0, data)


def f_goaway(last_sid: int = 0, code: int = 0) -> bytes:
    return frame(F_GOAWAY, 0, 0, struct.pack("!II", last_sid, code))


def f_winup(sid: int, increment: int) -> bytes:
    return frame(F_WINUP, 0, sid, struct.pack("!I", increment))


def h2_preamble() -> bytes:
    """Client connection preface, an empty SETTINGS and the acknowledgement of the server's SETTINGS."""
    return PREFACE + f_settings({}) + f_settings({}, ack=True)
