"""Reference models for C01 / C02 / C13: plain Python written from the HTTP and ASGI texts, no
hypercorn imports.  Everything an oracle *expects* is computed here from the request / response
*specification* the generator started from, never from what the server did.

Request spec (a picklable tuple, `ast.literal_eval`-able so that replays work):

    (version, method, target, headers, chunks, framing, complete)

    version   "1.0" | "1.1" | "2"
    method    bytes as written on the wire (may be lower case on HTTP/1)
    target    bytes, origin form  /path[?query]
    headers   [(name, value), ...] as written by the client (mixed case allowed on HTTP/1); on
              HTTP/1 they include Host (if any); on HTTP/2 they are the non-pseudo fields and the
              authority is given separately through AUTHORITY
    chunks    None (no body at all) or [bytes, ...]: the pieces the client writes (chunked: one chunk
              each, h2: one DATA frame each, content-length: concatenated)
    framing   "none" | "cl" | "chunked" | "h2"
    complete  True, or False = the client stops before the end of the body
"""
from __future__ import annotations

from typing import Any, Dict, List, Optional, Tuple

AUTHORITY = b"hypercorn"
HEX = b"0123456789abcdefABCDEF"


# ---------------------------------------------------------------------------------------------
# percent decoding (RFC 3986 2.1) and the ASGI scope


def percent_decode_bytes(raw: bytes) -> bytes:
    out = bytearray()
    i, n = 0, len(raw)
    while i < n:
        c = raw[i]
        if c == 0x25 and i + 2 < n and raw[i + 1] in HEX and raw[i + 2] in HEX:
            out.append(int(raw[i + 1:i + 3].decode("ascii"), 16))
            i += 3
        else:  # a stray percent sign is kept literally
            out.append(c)
            i += 1
    return bytes(out)


def percent_decode_path(raw: bytes) -> str:
    """ASGI `path`: percent-escapes decoded, then UTF-8 decoded into characters."""
    return percent_decode_bytes(raw).decode("utf-8", "replace")


def split_target(target: bytes) -> Tuple[bytes, bytes]:
    """(raw path, query string) - the query starts at the first '?'."""
    i = target.find(b"?")
    if i < 0:
        return target, b""
    return target[:i], target[i + 1:]


def spec_body(spec: tuple) -> bytes:
    chunks = spec[4]
    return b"".join(chunks) if chunks else b""


def expected_scope(spec: tuple, tls: bool, peer: tuple, local: tuple, raw_headers: bool = False) -> Dict[str, Any]:
    version, method, target, headers, chunks, framing, complete = spec
    raw_path, query = split_target(target)
    exp: Dict[str, Any] = {
        "type": "http",
        "http_version": version,
        "method": method.decode("ascii").upper(),
        "scheme": "https" if tls else "http",
        "path": percent_decode_path(raw_path),
        "raw_path": raw_path,
        "query_string": query,
        "client": (peer[0], peer[1]),
        "server": (local[0], local[1]),
    }
    if version == "2":
        # order of the regular fields preserved, host synthesised from :authority (its position is
        # not fixed by the property, so it is compared separately)
        exp["headers_nohost"] = [(n, v) for n, v in headers if n.lower() != b"host"]
        exp["host"] = [AUTHORITY]
    else:
        hs = [(n if raw_headers else n.lower(), v) for n, v in headers]
        exp["headers"] = hs
    return exp


def scope_mismatches(scope: dict, exp: Dict[str, Any]) -> List[Tuple[str, Any, Any]]:
    """[(field, got, wanted)] for every scope field that differs from the reference scope."""
    bad: List[Tuple[str, Any, Any]] = []
    for field in ("type", "http_version", "method", "scheme", "path", "raw_path", "query_string"):
        got = scope.get(field)
        if isinstance(got, (bytearray, memoryview)):
            got = bytes(got)
        if got != exp[field] or type(got) is not type(exp[field]):
            bad.append((field, got, exp[field]))
    for field in ("client", "server"):
        got = scope.get(field)
        if got is None or tuple(got) != exp[field]:
            bad.append((field, got, exp[field]))
    got_h = [(bytes(n), bytes(v)) for n, v in scope.get("headers", [])]
    if "headers" in exp:
        if got_h != exp["headers"]:
            bad.append(("headers", got_h, exp["headers"]))
    else:
        nohost = [(n, v) for n, v in got_h if n != b"host"]
        host = [v for n, v in got_h if n == b"host"]
        if nohost != exp["headers_nohost"]:
            bad.append(("headers", nohost, exp["headers_nohost"]))
        if host != exp["host"]:
            bad.append(("host", host, exp["host"]))
    return bad


# ---------------------------------------------------------------------------------------------
# request serialisation (the client's side of the wire, written by hand for HTTP/1)


def h1_head(spec: tuple, nospace: Tuple[bytes, ...] = ()) -> bytes:
    version, method, target, headers, chunks, framing, complete = spec
    lines = [method + b" " + target + b" HTTP/" + version.encode()]
    for n, v in headers:
        lines.append(n + (b":" if n in nospace else b": ") + v)
    return b"\r\n".join(lines) + b"\r\n\r\n"


def h1_framing_headers(chunks: Optional[List[bytes]], framing: str) -> List[Tuple[bytes, bytes]]:
    if framing == "cl":
        return [(b"Content-Length", str(len(b"".join(chunks or []))).encode())]
    if framing == "chunked":
        return [(b"Transfer-Encoding", b"chunked")]
    return []


def h1_body_pieces(spec: tuple) -> List[bytes]:
    """The body part of the wire image, one element per client write."""
    version, method, target, headers, chunks, framing, complete = spec
    if framing == "none" or chunks is None:
        return []
    out: List[bytes] = []
    if framing == "cl":
        out = [c for c in chunks if c]
    elif framing == "chunked":
        for c in chunks:
            if c:
                out.append(b"%x\r\n" % len(c) + c + b"\r\n")
        out.append(b"0\r\n\r\n")
    return out


def h1_wire(spec: tuple, nospace: Tuple[bytes, ...] = ()) -> List[bytes]:
    """[head, body piece, ...]; an incomplete request lacks its last piece's final byte(s)."""
    pieces = [h1_head(spec, nospace)] + h1_body_pieces(spec)
    if not spec[6]:
        if spec[5] == "chunked":
            pieces = pieces[:-1]  # terminating chunk never sent
        else:
            pieces[-1] = pieces[-1][:-1]  # one byte short of the declared length
    return pieces


def delivered_body_when_incomplete(spec: tuple) -> bytes:
    """What an incomplete request's body bytes are (prefix the client really sent)."""
    body = spec_body(spec)
    if spec[6]:
        return body
    if spec[5] == "chunked":
        return body
    return body[:-1]


def h2_request_fields(spec: tuple, scheme: bytes) -> List[Tuple[bytes, bytes]]:
    version, method, target, headers, chunks, framing, complete = spec
    return [(b":method", method), (b":path", target), (b":scheme", scheme), (b":authority", AUTHORITY)] + list(headers)


# ---------------------------------------------------------------------------------------------
# responses (C02)


def body_suppressed(method: str, status: int) -> bool:
    """RFC 7230 3.3.3 / RFC 7231: responses to HEAD and 1xx, 204, 304 carry no body."""
    return method.upper() == "HEAD" or 100 <= status < 200 or status in (204, 304)


SERVER_OWN = (b"date", b"server", b"alt-svc", b"connection")


def response_header_problems(got: List[Tuple[bytes, bytes]], app_headers: List[Tuple[bytes, bytes]], carrier_h1: bool,
                             http10: bool, status: int, method: str, body_len_on_wire: int) -> Optional[str]:
    """None if `got` = the application's headers in order followed only by the server's own headers
    (plus, on HTTP/1, the framing header the reference framing rule allows)."""
    app = [(n.lower(), v) for n, v in app_headers]
    if got[:len(app)] != app:
        return "app-headers"
    rest = got[len(app):]
    has_cl = any(n == b"content-length" for n, _ in app)
    for n, v in rest:
        if n in SERVER_OWN:
            continue
        if carrier_h1 and n == b"transfer-encoding":
            # chunked framing is legal only towards an HTTP/1.1 peer, when no length was declared, and
            # never on 1xx / 204 (RFC 7230 3.3.1)
            if v.lower() == b"chunked" and not http10 and not has_cl and not (100 <= status < 200 or status == 204):
                continue
            return "illegal-transfer-encoding"
        if carrier_h1 and n == b"content-length" and not has_cl:
            if v == str(body_len_on_wire).encode() or body_suppressed(method, status):
                continue
            return "wrong-content-length"
        return "foreign-header:" + n.decode("latin1")
    names = [n for n, _ in rest]
    for once in (b"date", b"server", b"transfer-encoding"):
        if names.count(once) > 1:
            return "duplicated:" + once.decode()
    return None


def server_header_config_problems(got: List[Tuple[bytes, bytes]], app_headers: List[Tuple[bytes, bytes]],
                                  cfg: Dict[str, Any]) -> Optional[str]:
    """What the documented configuration options say about the server's own headers (the part of `got` behind the
    application's): include_date_header / include_server_header = False -> no such header; alt_svc_headers = [...] ->
    exactly these values, in order, as alt-svc headers."""
    rest = got[len(app_headers):]
    names = [n for n, _ in rest]
    if cfg.get("include_date_header", True) is False and b"date" in names:
        return "date-although-disabled"
    if cfg.get("include_server_header", True) is False and b"server" in names:
        return "server-although-disabled"
    alt = cfg.get("alt_svc_headers")
    if alt is not None:
        have = [v for n, v in rest if n == b"alt-svc"]
        if have != [a.encode() for a in alt]:
            return "alt-svc-not-as-configured"
    return None
