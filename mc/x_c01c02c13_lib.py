"""Glue shared by props/c01.py, c02.py and c13.py.

* `make_execute(plan, oracle, observe)`: like mc.harness.std_execute, but the *plan* is computed with
  the execution's own chooser, so a scenario can declare **data choice points** (kind "data": always
  fully enumerated by Explorer A, never bounded) - used for "every split point of the byte string".
* `choose_cuts` / `segments`: segmentation of a byte script as data choices.
* `XClient`: mc.clients.Client plus (a) pre-generated HTTP/2 byte scripts: the commands are applied
  to the parser's own h2 connection up-front so that it only *parses* what the server answers while
  the bytes reach the server as plain ('data', k, bytes) events that can be cut anywhere; (b) guards
  for client pacing commands (ack / winup fire only when they mean something).
* `PacedScriptApp`: scripted application with a "one gate per receive()" op.
"""
from __future__ import annotations

import gc
import os
from typing import Any, Callable, Dict, List, Optional, Tuple

from . import aio
from .clients import Client, H2Client
from .core import Chooser, HarnessError, ScriptApp, digest
from .explore import ExecResult
from .harness import default_observation, describe, generic_violations


# ---------------------------------------------------------------------------------------------
# executions


def run_world(engine: str, scenario: dict, chooser: Chooser) -> Any:
    if engine == "asyncio":
        w = aio.AioWorld(scenario, chooser).run()
    elif engine == "trio":
        from . import tri

        w = tri.TrioWorld(scenario, chooser).run()
    else:
        raise ValueError(engine)
    for rec in w.conns.values():
        if rec.client is not None and (rec.closed_at is not None or rec.server_eof_at is not None):
            t = rec.closed_at if rec.closed_at is not None else rec.server_eof_at
            rec.client.on_close(t)
    return w


def make_execute(plan: Callable[[Any, Chooser], tuple], oracle: Callable[[Any, Any, Any], List[dict]],
                 observe: Optional[Callable[[Any, Any, Any], Any]] = None) -> Callable[[Any, List[int]], ExecResult]:
    """plan(params, chooser) -> (engine, scenario, ctx); oracle(world, params, ctx); observe(world, params, ctx)."""

    count = [0]

    def execute(params: Any, prefix: List[int]) -> ExecResult:
        # the pool workers run with the cyclic collector disabled and collect between scenarios only; one
        # scenario here can be 10^4 executions (all 3-way splits), each leaving a loop/task graph behind
        count[0] += 1
        if count[0] % 300 == 0:
            gc.collect()
        chooser = Chooser(prefix)
        engine, scenario, ctx = plan(params, chooser)
        w = run_world(engine, scenario, chooser)
        viol = generic_violations(w) + oracle(w, params, ctx)
        obs = observe(w, params, ctx) if observe is not None else default_observation(w)
        choices = w.chooser.choices
        if os.environ.get("MC_VERBOSE"):
            print("ctx:", repr(ctx)[:1500])
            describe(w)
        nontrivial = bool(w.instances) and any(choices)
        sample = {"params": repr(params)[:400], "engine": engine, "choices": choices[:40],
                  "events": [repr(e)[:80] for _, e in w.driver.fired][:12],
                  "instances": [(i.scope["type"], i.scope.get("path"), i.outcome) for i in w.instances][:4],
                  "closed_at": {k: r.closed_at for k, r in w.conns.items()}}
        return ExecResult(w.chooser.trace, viol, digest(obs), nontrivial, w.sigs, sample)

    return execute


# ---------------------------------------------------------------------------------------------
# segmentation as data choices


def choose_cuts(chooser: Chooser, length: int, mode: Any) -> Tuple[int, ...]:
    """Cut offsets (0 < c < length) of a byte string of `length` bytes.

    mode: "one" (a single read) | "2way" (choice 0 = unsplit, i = cut at i) | "3way" (every pair
    of cut points, two nested data choices; "3way/p/n" is the p-th of n slices of that set) | "bytes" (one byte per read) | ("list", [cuts, ...])
    (choice among the given cut tuples) | ("every", k) (a read every k bytes)."""
    if mode == "one" or length < 2:
        return ()
    if mode == "2way":
        c = chooser.choose(length, "data")
        return () if c == 0 else (c,)
    if isinstance(mode, str) and mode.startswith("3way"):
        # "3way" or "3way/<part>/<nparts>": the slice of pairs whose first cut i has i % nparts == part (load balancing)
        if length < 3:
            return ()
        part, nparts = (int(x) for x in mode.split("/")[1:]) if "/" in mode else (0, 1)
        firsts = [i for i in range(1, length - 1) if i % nparts == part]  # first cut 1 .. length-2
        if not firsts:
            return ()
        i = firsts[chooser.choose(len(firsts), "data")]
        b = chooser.choose(length - 1 - i, "data")  # second cut i+1 .. length-1
        return (i, i + 1 + b)
    if mode == "bytes":
        return tuple(range(1, length))
    if isinstance(mode, (tuple, list)) and mode[0] == "list":
        opts = mode[1]
        return tuple(opts[chooser.choose(len(opts), "data")])
    if isinstance(mode, (tuple, list)) and mode[0] == "every":
        return tuple(range(mode[1], length, mode[1]))
    raise HarnessError(f"unknown split mode {mode!r}")


def segments(data: bytes, cuts: Any, forced: Any = ()) -> List[bytes]:
    pts = sorted(set(c for c in list(cuts) + list(forced) if 0 < c < len(data)))
    out = []
    last = 0
    for p in pts + [len(data)]:
        out.append(data[last:p])
        last = p
    return [s for s in out if s]


def three_way_modes(length: int, per_item: int = 1500) -> List[str]:
    """Split the set of all 3-way splits of `length` bytes into slices of roughly `per_item` executions."""
    total = (length - 1) * (length - 2) // 2
    n = max(1, min(length - 2, -(-total // per_item)))
    return ["3way"] if n == 1 else [f"3way/{p}/{n}" for p in range(n)]


def lattice(boundaries: List[int], length: int) -> List[Tuple[int, ...]]:
    """Every structural offset and its neighbours (offset-1, offset, offset+1) as single cuts."""
    pts = sorted({p + d for p in boundaries for d in (-1, 0, 1) if 0 < p + d < length})
    return [()] + [(p,) for p in pts]


# ---------------------------------------------------------------------------------------------
# client


def apply_h2_script(h2c: H2Client, script: List[tuple]) -> List[bytes]:
    """Run client commands on an h2 client state machine; returns the bytes of each command."""
    out = []
    for cmd in script:
        out.append(h2c.command(cmd[0], tuple(cmd[1:])))
    return out


def h2_script_bytes(script: List[tuple], settings: Optional[Dict[int, int]] = None) -> List[bytes]:
    """Dry run: the wire image of a command script (HPACK and h2 framing are deterministic)."""
    return apply_h2_script(H2Client(True, True, settings), script)


def h2c_settings_header(settings: Optional[Dict[int, int]] = None) -> bytes:
    """The HTTP2-Settings value a client with these settings puts in its upgrade request."""
    c = H2Client(True, True, settings)
    return c.conn.initiate_upgrade_connection()


class XClient(Client):
    def __init__(self, opts: dict) -> None:
        super().__init__(opts)
        script = opts.get("h2_script")
        self.script_bytes: List[bytes] = []
        if script is not None:
            if self.h2 is None:
                raise HarnessError("h2_script on a carrier without h2")
            self.h2.started = True
            if self.carrier == "h2c":
                self._h2c_started = True
            self.script_bytes = apply_h2_script(self.h2, list(script))
            self.h2.pending.clear()

    def _h2c_feed(self, data: bytes, t: float) -> None:
        first = not self._h2c_started
        super()._h2c_feed(b"", t) if first else None
        if first:
            # the h2 client library learns a stream's request method from its own send_headers(); stream 1 of
            # an upgraded connection never had one, so tell it (it matters for HEAD: no body is expected)
            st = self.h2.conn.streams.get(1)
            methods = self.opts.get("methods")
            if st is not None and methods:
                st.request_method = bytes(methods[0])
        self.h2.feed(data, t)

    def command(self, ev: tuple) -> bytes:
        name, args = ev[2], tuple(ev[3:])
        if name == "after101":  # raw bytes a client may only send once it has seen the 101 (websocket frames)
            return args[0]
        if name == "ackn":  # acknowledge at most n of the received-but-unacknowledged bytes of a stream
            sid, n = args
            have = self.h2.unacked.get(sid, 0)
            n = min(n, have)
            if n:
                self.h2.unacked[sid] = have - n
                try:
                    self.h2.conn.acknowledge_received_data(n, sid)
                except Exception:
                    pass
            return self.h2.take()
        return super().command(ev)

    def cmd_enabled(self, ev: tuple) -> bool:
        name, args = ev[2], tuple(ev[3:])
        if name == "after101":
            return self.h1 is not None and self.h1.switched
        if self.h2 is None:
            return False
        if name in ("ack", "ackn"):
            return self.h2.unacked.get(args[0], 0) > 0
        if name == "winup" and not self.h2.started:
            return False  # no frame leaves a client before its connection preface
        if name == "winup" and args[0]:
            st = self.h2.conn.streams.get(args[0])
            return st is not None and not st.closed
        if name == "headers" and not self.h2.started:
            return False
        return super().cmd_enabled(ev)


def make_xclient(world: Any, k: int, opts: dict) -> XClient:
    return XClient(opts)


# ---------------------------------------------------------------------------------------------
# application


class PacedScriptApp(ScriptApp):
    """ScriptApp + ('recv_body_gated', gate): wait on `gate` before *every* receive() until the body ended."""

    async def _recv(self, inst: Any, receive: Callable) -> dict:
        m = await super()._recv(inst, receive)
        w = self.world
        if not w.finished:  # when, relative to the environment's events, the message reached the application
            inst.log.append((w.now(), "recv-at", tuple(w.driver.pos)))
        return m

    async def _run(self, inst: Any, program: list, receive: Callable, send: Callable) -> None:
        for pc, op in enumerate(program):
            if op[0] == "recv_body_gated":
                inst.pc = pc
                while True:
                    await self.world.wait_gate(inst, op[1])
                    m = await self._recv(inst, receive)
                    if m["type"] != "http.request" or not m.get("more_body", False):
                        break
            elif op[0] == "return":
                inst.pc = pc
                return
            else:
                await super()._run(inst, [op], receive, send)
            inst.pc = pc
        inst.pc = len(program)


def paced_app_factory(apps: Dict[str, list]) -> Callable[[Any], Any]:
    def factory(world: Any) -> Any:
        from hypercorn.app_wrappers import ASGIWrapper

        return ASGIWrapper(PacedScriptApp(world, apps))

    return factory
