"""Make `import hypercorn` resolve to the working tree under test.

HYPERCORN_SRC overrides the source root (used for mutant runs on scratch copies);
the default is /repo/src, i.e. the current working tree (pure Python, nothing to build).
"""
import os
import sys

SRC = os.environ.get("HYPERCORN_SRC", "/repo/src")
if not os.path.isdir(os.path.join(SRC, "hypercorn")):
    raise SystemExit(f"harness error: no hypercorn package under {SRC}")
if sys.path[0] != SRC:
    sys.path.insert(0, SRC)
for name in list(sys.modules):
    if name == "hypercorn" or name.startswith("hypercorn."):
        mod = sys.modules[name]
        f = getattr(mod, "__file__", "") or ""
        if not f.startswith(SRC):
            del sys.modules[name]

import hypercorn  # noqa: E402

if not hypercorn.__file__.startswith(SRC):
    raise SystemExit(f"harness error: hypercorn imported from {hypercorn.__file__}, wanted {SRC}")

import warnings  # noqa: E402

warnings.filterwarnings("ignore", category=RuntimeWarning, message="coroutine .* was never awaited")
