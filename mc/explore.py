"""Explorers, the process pool, evidence and findings handling.

A property module (props/cNN.py) provides:

    ID, LEVEL, RULE, ASSUMPTIONS, TECHNIQUE
    scenarios(tier)        -> list of picklable params (one top-level scenario each)
    execute(params, prefix) -> ExecResult   (one execution of the real code; deterministic)
    bounds(tier, params)   -> dict(M=, S=, R=)       (deviation bounds for Explorer A)

Explorer A (stateless, deviation bounded DFS) is `explore_item`; modules that need Explorer B
(explicit-state BFS over operation histories) implement `explore_item_custom(params, tier)`
using `bfs()` below.
"""
from __future__ import annotations

import gc
import importlib
import json
import multiprocessing as mp
import os
import random
import subprocess
import sys
import time
import traceback
from typing import Any, Callable, Dict, List, Optional, Tuple

from .core import COST, HarnessError, Point, digest

VERIF = os.path.dirname(os.path.dirname(os.path.abspath(__file__)))


class ExecResult:
    __slots__ = ("trace", "violations", "digest", "nontrivial", "sigs", "sample", "info")

    def __init__(self, trace: List[Point], violations: List[dict], dig: str, nontrivial: bool,
                 sigs: Any = (), sample: Any = None, info: Any = None) -> None:
        self.trace = trace
        self.violations = violations
        self.digest = dig
        self.nontrivial = nontrivial
        self.sigs = sigs
        self.sample = sample
        self.info = info


def V(clause: str, key: str, detail: Any = "") -> dict:
    return {"clause": clause, "key": key, "detail": str(detail)[:600]}


# ---------------------------------------------------------------------------------------------
# Explorer A


def explore_item(execute: Callable[[Any, List[int]], ExecResult], params: Any, bounds: Dict[str, int],
                 deadline: float, max_exec: int = 10**9) -> dict:
    """Every choice sequence within the deviation bounds, by the recursion of the brief."""
    res = _blank_result()
    stack: List[Tuple[List[int], Dict[str, int]]] = [([], {"M": 0, "S": 0, "R": 0})]
    bounds = {"M": bounds.get("M", 0), "S": bounds.get("S", 0), "R": bounds.get("R", 0)}
    first = True
    while stack:
        if time.time() > deadline or res["executions"] >= max_exec:
            res["capped"] = True
            res["cap_pending"] = len(stack)
            break
        prefix, used = stack.pop()
        if res["executions"] % 64 == 63:
            gc.collect()  # automatic collection is off in workers; worlds are cyclic garbage
        try:
            r = execute(params, prefix)
        except HarnessError as e:
            if not prefix or "replay divergence" not in str(e):
                raise
            # the prefix was recorded from an execution of this very scenario and no longer replays: the code under
            # test carries state from one execution to the next (main_check decides what that means)
            res["replay_divergences"] += 1
            res["divergent"].append(_json_safe({"params": params, "choices": prefix, "error": str(e)}))
            continue
        _account(res, r, params, [p.choice for p in r.trace], first)
        if first:
            # determinism: the very same choices must reproduce the very same observation
            r2 = execute(params, [p.choice for p in r.trace])
            res["replay_checks"] += 1
            if r2.digest != r.digest:
                res["replay_divergences"] += 1
                res["divergent"].append(_json_safe({"params": params, "choices": [p.choice for p in r.trace]}))
            first = False
        trace = r.trace
        if len(trace) < len(prefix):
            res["replay_divergences"] += 1
            res["divergent"].append(_json_safe({"params": params, "choices": prefix, "error": "replay shorter than its prefix"}))
            continue
        choices = [p.choice for p in trace]
        for i in range(len(prefix), len(trace)):
            p = trace[i]
            cls = COST.get(p.kind)
            if cls is not None and used[cls] + 1 > bounds[cls]:
                continue
            nu = used if cls is None else {**used, cls: used[cls] + 1}
            for alt in range(1, p.n):
                stack.append((choices[:i] + [alt], nu))
    return res


def _keep(res: dict, v: dict, cap: int = 400) -> None:
    """Keep the first witness of every distinct (clause, key): a frequent (e.g. known) violation must never crowd out
    a rare one, so the cap counts distinct kinds, not occurrences."""
    seen = res.setdefault("vkeys", set())
    k = (v.get("clause"), v.get("key"))
    if k in seen or len(seen) >= cap:
        return
    seen.add(k)
    res["violations"].append(v)


def _blank_result() -> dict:
    return {"executions": 0, "points": 0, "digests": set(), "nontrivial": set(), "sigs": set(),
            "violations": [], "capped": False, "cap_pending": 0, "replay_checks": 0,
            "replay_divergences": 0, "divergent": [], "samples": [], "maxdev": 0, "states": 0,
            "transitions": 0}


def _account(res: dict, r: ExecResult, params: Any, choices: List[int], want_sample: bool) -> None:
    res["executions"] += 1
    res["points"] += len(r.trace)
    res["digests"].add(r.digest)
    if r.nontrivial:
        res["nontrivial"].add(r.digest)
    for s in r.sigs:
        res["sigs"].add(hash(s))
    dev = sum(1 for c in choices if c)
    if dev > res["maxdev"]:
        res["maxdev"] = dev
    for v in r.violations:
        _keep(res, {**v, "params": params, "choices": choices})
    if want_sample and r.sample is not None and len(res["samples"]) < 2:
        res["samples"].append(r.sample)


# ---------------------------------------------------------------------------------------------
# Explorer B


def bfs(run: Callable[[List[Any]], Tuple[Any, List[dict], List[Any]]], depth: int, deadline: float,
        roots: Optional[List[List[Any]]] = None) -> dict:
    """Breadth-first search over operation histories.  `run(history)` rebuilds a fresh world,
    replays the history on the real code and returns (canonical state, violations, operations
    enabled in the state reached); histories reaching an already seen canonical state are not
    expanded (the harness argues why states with equal canon have equal futures)."""
    res = _blank_result()
    seen = set()
    frontier: List[Tuple[List[Any], List[Any]]] = []
    transitions = 0
    for hist in (roots if roots is not None else [[]]):
        canon, viol, ops = run(list(hist))
        res["executions"] += 1
        for v in viol:
            _keep(res, {**v, "history": list(hist)})
        if canon not in seen:
            seen.add(canon)
            frontier.append((list(hist), ops))
    level = 0
    while frontier and level < depth:
        nxt: List[Tuple[List[Any], List[Any]]] = []
        for hist, ops in frontier:
            if time.time() > deadline:
                res["capped"] = True
                res["cap_pending"] = len(frontier)
                break
            for op in ops:
                h2 = hist + [op]
                if res["executions"] % 64 == 63:
                    gc.collect()
                c2, v2, ops2 = run(h2)
                res["executions"] += 1
                transitions += 1
                for v in v2:
                    _keep(res, {**v, "history": h2})
                if c2 not in seen:
                    seen.add(c2)
                    nxt.append((h2, ops2))
                    if len(res["samples"]) < 3 and len(h2) >= 2:
                        res["samples"].append(_json_safe(h2))
        if res["capped"]:
            break
        frontier = nxt
        level += 1
    res["states"] = len(seen)
    res["transitions"] = transitions
    res["depth_completed"] = level
    res["digests"] = set(hash(c) for c in seen)
    res["nontrivial"] = set(res["digests"])
    return res


# ---------------------------------------------------------------------------------------------
# pool


_MOD: Any = None


def _worker_init(modname: str) -> None:
    global _MOD
    import gc

    gc.disable()
    _MOD = importlib.import_module(modname)


_ITEM_COUNT = [0]


def _worker_item(arg: Tuple[int, Any, str, float]) -> Tuple[int, dict]:
    idx, params, tier, deadline = arg
    import gc

    try:
        if hasattr(_MOD, "explore_item_custom"):
            res = _MOD.explore_item_custom(params, tier, deadline)
        else:
            res = explore_item(_MOD.execute, params, _MOD.bounds(tier, params), deadline,
                               getattr(_MOD, "MAX_EXEC_PER_ITEM", 10**9))
    except HarnessError as e:
        res = _blank_result()
        res["harness_error"] = f"{e}\n{traceback.format_exc()}"
    except Exception as e:
        res = _blank_result()
        res["harness_error"] = f"{type(e).__name__}: {e}\n{traceback.format_exc()}"
    _ITEM_COUNT[0] += 1
    if _ITEM_COUNT[0] % 20 == 0:
        gc.collect()
    res["params"] = params
    return idx, res


def run_property(modname: str, tier: str, seed: int, jobs: int, budget_s: float) -> dict:
    mod = importlib.import_module(modname)
    items = list(mod.scenarios(tier))
    if os.environ.get("VERIF_ONLY"):  # development aid: a Python expression over p (one scenario's parameters)
        items = [p for p in items if eval(os.environ["VERIF_ONLY"], {"p": p})]
    rnd = random.Random(seed)
    order = list(range(len(items)))
    rnd.shuffle(order)
    t0 = time.time()
    deadline = t0 + budget_s
    total = _blank_result()
    total["items"] = len(items)
    total["items_done"] = 0
    total["items_capped"] = 0
    total["harness_errors"] = []
    args = [(i, items[i], tier, deadline) for i in order]
    if jobs <= 1:
        _worker_init(modname)
        results = map(_worker_item, args)
        _merge_all(total, results)
    else:
        ctx = mp.get_context("fork")
        with ctx.Pool(jobs, initializer=_worker_init, initargs=(modname,)) as pool:
            chunk = max(1, min(8, len(args) // (jobs * 8)))
            _merge_all(total, pool.imap_unordered(_worker_item, args, chunksize=chunk))
    total["wall_s"] = time.time() - t0
    return total


def _merge_all(total: dict, results: Any) -> None:
    for idx, res in results:
        if "harness_error" in res:
            total["harness_errors"].append(res["harness_error"])
            continue
        total["items_done"] += 1
        total.setdefault("top", []).append((res.get("executions", 0), repr(res.get("params"))[:120]))
        if res.get("capped"):
            total["items_capped"] += 1
            total["capped"] = True
        for key in ("executions", "points", "replay_checks", "replay_divergences", "states", "transitions"):
            total[key] += res.get(key, 0)
        for key in ("digests", "nontrivial", "sigs"):
            total[key] |= res[key]
        total["maxdev"] = max(total["maxdev"], res.get("maxdev", 0))
        total["divergent"].extend(res.get("divergent", []))
        for v in res["violations"]:
            _keep(total, v, cap=5000)
        if len(total["samples"]) < 6:
            total["samples"].extend(res["samples"][: 6 - len(total["samples"])])
        if "depth_completed" in res:
            total["depth_completed"] = min(total.get("depth_completed", 10**9), res["depth_completed"])


# ---------------------------------------------------------------------------------------------
# findings


def load_known() -> List[dict]:
    path = os.path.join(VERIF, "known_findings.json")
    if not os.path.exists(path):
        return []
    with open(path) as f:
        data = json.load(f)
    return data.get("findings", [])


def match_known(prop: str, v: dict, known: List[dict]) -> Optional[dict]:
    import re

    for k in known:
        if k.get("status") != "open" or k.get("property") != prop:
            continue
        m = k["match"]
        if m.get("clause") is not None and not re.fullmatch(m["clause"], v["clause"]):
            continue
        if m.get("key") is not None and not re.search(m["key"], v["key"]):
            continue
        return k
    return None


def _json_safe(o: Any) -> Any:
    if isinstance(o, (bytes, bytearray)):
        return {"__bytes__": bytes(o).decode("latin1")}
    if isinstance(o, dict):
        return {str(k): _json_safe(v) for k, v in o.items()}
    if isinstance(o, (list, tuple)):
        return [_json_safe(x) for x in o]
    if isinstance(o, (str, int, float, bool)) or o is None:
        return o
    return repr(o)


def write_replay(prop: str, v: dict, tier: str) -> str:
    d = os.path.join(VERIF, "replays", "tmp" if os.environ.get("VERIF_NO_EVIDENCE") else "", prop)
    if os.environ.get("VERIF_REPLAY_DIR"):  # scratch runs of the seed tools: each keeps its replays to itself
        d = os.path.join(os.environ["VERIF_REPLAY_DIR"], prop)
    os.makedirs(d, exist_ok=True)
    body = {"property": prop, "clause": v["clause"], "key": v["key"], "detail": v["detail"],
            "params_repr": repr(v.get("params")), "choices": v.get("choices"),
            "history_repr": repr(v.get("history")) if v.get("history") is not None else None}
    name = digest((prop, v["clause"], v["key"])) + ".json"
    path = os.path.join(d, name)
    with open(path, "w") as f:
        json.dump(body, f, indent=1)
    return path


# ---------------------------------------------------------------------------------------------
# evidence


def write_evidence(mod: Any, tier: str, seed: int, total: dict, n_viol: int, known_hit: List[str],
                   extra: Optional[dict] = None) -> str:
    level = mod.LEVEL
    cov: Dict[str, Any] = {
        "evaluations": total["executions"],
        "distinct_nontrivial": len(total["nontrivial"]),
        "distinct_outcomes": len(total["digests"]),
        "rule": mod.RULE,
        "samples": total["samples"][:6] or [{"note": "no sample recorded"}],
        "scenarios": total["items"],
        "scenarios_completed": total["items_done"] - total["items_capped"],
        "choice_points": total["points"],
        "max_deviations_in_one_execution": total["maxdev"],
        "replay_checks": total["replay_checks"],
        "replay_divergences": total["replay_divergences"],
        "caps_hit": (["wall-clock budget: %d scenario(s) stopped early" % total["items_capped"]]
                     if total["items_capped"] else []),
        "exhaustive": not total["capped"] and not total["harness_errors"],
        "known_findings_hit": known_hit,
        "bounds": getattr(mod, "BOUNDS_DOC", {}).get(tier, ""),
    }
    if level == "model_checking":
        states = total["states"] or len(total["sigs"]) or len(total["digests"])
        cov["states"] = max(1, states)
        cov["transitions"] = max(1, total["transitions"] or total["points"] or total["executions"])
        cov["traces_validated_against_impl"] = total["executions"]
        cov["states_note"] = (
            "states = distinct canonical states reached by the breadth-first search" if total["states"] else
            "states = distinct quiescent-state signatures visited (reporting only, never used to prune); "
            "transitions = choice points resolved; every trace is an execution of the implementation itself")
    if "depth_completed" in total:
        cov["depth_completed"] = total["depth_completed"]
    if extra:
        cov.update(extra)
    ev = {
        "property_id": mod.ID, "tier": tier, "seed": seed, "level": level, "coverage": _json_safe(cov),
        "assumptions": list(mod.ASSUMPTIONS), "wall_s": round(total["wall_s"], 2), "violations": n_viol,
    }
    d = os.path.join(VERIF, "evidence")
    os.makedirs(d, exist_ok=True)
    path = os.path.join(d, f"{mod.ID}.json")
    tmp = path + ".tmp"
    with open(tmp, "w") as f:
        json.dump(ev, f, indent=1)
    os.replace(tmp, path)
    return path


def validate_evidence(path: str) -> Optional[str]:
    schema = "/root/.vp/EVIDENCE.schema.json"
    if not os.path.exists(schema):
        schema = os.path.join(VERIF, "schemas", "EVIDENCE.schema.json")
    code = (
        "import json,sys,jsonschema\n"
        f"jsonschema.validate(json.load(open({path!r})), json.load(open({schema!r})))\n"
    )
    for py in ("python3-vt", "/opt/veriftools/pyvenv/bin/python"):
        try:
            p = subprocess.run([py, "-c", code], capture_output=True, text=True, timeout=60)
        except (FileNotFoundError, subprocess.TimeoutExpired):
            continue
        return None if p.returncode == 0 else p.stderr[-800:]
    return None


# ---------------------------------------------------------------------------------------------
# the check driver


def main_check(modname: str, tier: str, seed: int, jobs: int, budget_s: float) -> int:
    mod = importlib.import_module(modname)
    total = run_property(modname, tier, seed, jobs, budget_s)
    prop = mod.ID
    if total["harness_errors"]:
        print(f"HARNESS-ERROR property={prop}: {len(total['harness_errors'])} scenario(s) failed inside the harness")
        print(total["harness_errors"][0])
        return 2
    known = load_known()
    if total["replay_divergences"]:
        # the same (scenario, choices) gave different observations twice: on the unchanged tree that is a harness
        # defect; when violations were found as well, state leaking between executions inside hypercorn is the
        # likelier cause and the violations (each found within ONE execution on a fresh world) are the verdict
        if not any(match_known(prop, v, known) is None for v in total["violations"]):
            print(f"HARNESS-ERROR property={prop}: {total['replay_divergences']} replay divergence(s): "
                  f"{total['divergent'][:2]}")
            return 2
        print(f"NOTE property={prop}: {total['replay_divergences']} replay divergence(s) (state survives from one "
              f"execution to the next); violations below were each observed within a single execution")
    hits: Dict[str, dict] = {}
    unknown: Dict[Tuple[str, str], dict] = {}
    for v in total["violations"]:
        k = match_known(prop, v, known)
        if k is not None:
            hits.setdefault(k["id"], k)
        else:
            unknown.setdefault((v["clause"], v["key"]), v)
    for kid, k in sorted(hits.items()):
        print(f"KNOWN-FINDING: property={prop} [{kid}] {k['summary']}")
    rc = 0
    for (clause, key), v in sorted(unknown.items()):
        path = write_replay(prop, v, tier)
        print(f"VIOLATION property={prop} replay={path}")
        print(f"  clause={clause} key={key}\n  detail={v['detail'][:300]}")
        rc = 1
    if not os.environ.get("VERIF_NO_EVIDENCE"):  # runs against scratch copies never touch the evidence
        path = write_evidence(mod, tier, seed, total, len(unknown), sorted(hits))
        err = validate_evidence(path)
        if err:
            print(f"HARNESS-ERROR property={prop}: evidence does not validate: {err}")
            return 2
    if os.environ.get("MC_TOP"):
        for n, p in sorted(total.get("top", []), reverse=True)[:8]:
            print(f"  top item: {n} executions  {p}")
    cap = " (capped: budget hit)" if total["capped"] else ""
    print(f"{prop} {tier}: scenarios={total['items']} executions={total['executions']} "
          f"distinct_outcomes={len(total['digests'])} nontrivial={len(total['nontrivial'])} "
          f"states={total['states'] or len(total['sigs'])} violations={len(unknown)} known={len(hits)} "
          f"wall={total['wall_s']:.1f}s{cap}")
    return rc
