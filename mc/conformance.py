"""Conformance self-test: binds the environment model (fake transport / stream, virtual loop,
instrumented trio) to reality by running canonical traces through (a) the fakes and (b) real
loopback sockets on the real asyncio loop / real trio, with the same hypercorn code, and comparing
the normalised client-side observations.  A divergence fails the setup (not a property)."""
from __future__ import annotations

import asyncio
import socket
import time
from typing import Any, List, Tuple

from . import bootstrap  # noqa: F401
from .clients import Client, h1_request, make_client
from .harness import client_view, run_world

OK = [("recv_body",), ("send", {"type": "http.response.start", "status": 200, "headers": [(b"content-length", b"2")]}),
      ("send", {"type": "http.response.body", "body": b"ok", "more_body": False})]
BIG = [("recv_body",), ("send", {"type": "http.response.start", "status": 200, "headers": [(b"content-length", b"200000")]}),
       ("send", {"type": "http.response.body", "body": b"x" * 200000, "more_body": False})]
T = 0.4  # keep_alive_timeout used for the real runs (virtual runs use the same value)

# (name, conn opts, client steps, apps); steps: ("data", bytes) | ("eof",) | ("wait_close",) | ("sleep", dt)
TRACES: List[Tuple[str, dict, list, dict]] = [
    ("keepalive-then-idle-close", {"carrier": "h1", "methods": [b"GET", b"GET"]},
     [("data", h1_request(b"GET", b"/a")), ("data", h1_request(b"GET", b"/b")), ("wait_close",)], {"http": OK}),
    ("pipelined-pair", {"carrier": "h1", "methods": [b"GET", b"GET"]},
     [("data", h1_request(b"GET", b"/a") + h1_request(b"GET", b"/b")), ("wait_close",)], {"http": OK}),
    ("split-request", {"carrier": "h1", "methods": [b"POST"]},
     [("data", h1_request(b"POST", b"/p", body=b"hello")[:20]), ("data", h1_request(b"POST", b"/p", body=b"hello")[20:]),
      ("wait_close",)], {"http": OK}),
    ("client-half-close", {"carrier": "h1", "methods": [b"GET"]},
     [("data", h1_request(b"GET", b"/a")), ("eof",), ("wait_close",)], {"http": OK}),
    ("connection-close-header", {"carrier": "h1", "methods": [b"GET"]},
     [("data", h1_request(b"GET", b"/a", [(b"Connection", b"close")])), ("wait_close",)], {"http": OK}),
    ("malformed", {"carrier": "h1", "methods": [b"GET"]},
     [("data", b"GET / HTTP/1.1\r\nbad header\r\n\r\n"), ("wait_close",)], {"http": OK}),
    ("large-response", {"carrier": "h1", "methods": [b"GET"]},
     [("data", h1_request(b"GET", b"/big", [(b"Connection", b"close")])), ("wait_close",)], {"http": BIG}),
]


def _fake(engine: str, opts: dict, steps: list, apps: dict) -> Any:
    client = []
    for st in steps:
        if st[0] == "data":
            client.append(("data", 0, st[1]))
            client.append(("wait_idle",))
        elif st[0] == "eof":
            client.append(("eof", 0))
    sc = {"level": "conn", "conns": {0: dict(opts)}, "client_factory": make_client, "apps": apps,
          "config": {"keep_alive_timeout": T}, "sources": [("client", client), ("clock", [("tick",), ("tick",)])],
          "midflight": False}
    w = run_world(engine, sc, [])
    rec = w.conns[0]
    return client_view(rec), rec.closed_at is not None


class _World:
    """The minimum a ScriptApp needs when it runs on a real loop."""

    finished = False

    def __init__(self, backend: str) -> None:
        self.backend = backend
        self.instances: list = []
        self.conns: dict = {}
        self.logrec: list = []
        self.access: list = []
        self.gate_waiters: dict = {}
        self._seq = 0
        import trio

        self.cancelled_exc = asyncio.CancelledError if backend == "asyncio" else trio.Cancelled

        class _D:
            fired: list = []

        self.driver = _D()

    def now(self) -> float:
        return 0.0

    def next_seq(self) -> int:
        self._seq += 1
        return self._seq

    def on_instance(self, inst: Any) -> None:
        pass


def _config(world: Any) -> Any:
    from hypercorn.config import Config

    from .core import RecordingLogger

    class _L(RecordingLogger):
        pass

    _L.world = world
    cfg = Config()
    cfg.logger_class = _L
    cfg.keep_alive_timeout = T
    return cfg


def _client_run(port: int, opts: dict, steps: list) -> Tuple[Any, bool]:
    """Blocking client on a real socket (runs in a thread)."""
    cl = Client(dict(opts))
    s = socket.create_connection(("127.0.0.1", port))
    s.settimeout(5)
    closed = False

    def drain(until_close: bool) -> None:
        nonlocal closed
        s.settimeout(5 if until_close else 0.15)
        while True:
            try:
                d = s.recv(65536)
            except socket.timeout:
                return
            except OSError:
                closed = True
                return
            if not d:
                closed = True
                return
            cl.on_server_bytes(d, 0.0)
            if not until_close and not (len(d) == 65536):
                s.settimeout(0.15)

    for st in steps:
        if st[0] == "data":
            s.sendall(st[1])
            drain(False)
        elif st[0] == "eof":
            s.shutdown(socket.SHUT_WR)
        elif st[0] == "wait_close":
            drain(True)
    if closed:
        cl.on_close(0.0)
    s.close()
    return cl, closed


def _real_asyncio(opts: dict, steps: list, apps: dict) -> Any:
    from hypercorn.app_wrappers import ASGIWrapper
    from hypercorn.asyncio.tcp_server import TCPServer
    from hypercorn.asyncio.worker_context import WorkerContext

    from .core import ScriptApp

    world = _World("asyncio")
    cfg = _config(world)

    async def main() -> Any:
        loop = asyncio.get_running_loop()
        app = ASGIWrapper(ScriptApp(world, apps))
        ctx = WorkerContext(None)

        async def cb(reader: Any, writer: Any) -> None:
            await TCPServer(app, loop, cfg, ctx, {}, reader, writer)

        server = await asyncio.start_server(cb, "127.0.0.1", 0)
        port = server.sockets[0].getsockname()[1]
        res = await loop.run_in_executor(None, _client_run, port, opts, steps)
        server.close()
        return res

    loop = asyncio.new_event_loop()
    loop.set_exception_handler(lambda _l, _c: None)  # CPython 3.12.1's stream callback logs cancelled handler tasks
    try:
        cl, closed = loop.run_until_complete(asyncio.wait_for(main(), 20))
    finally:
        pending = asyncio.all_tasks(loop)
        for t in pending:
            t.cancel()
        if pending:
            loop.run_until_complete(asyncio.gather(*pending, return_exceptions=True))
        loop.close()

    class R:
        client = cl
        out = b""

    return client_view(R), closed


def _real_trio(opts: dict, steps: list, apps: dict) -> Any:
    import trio
    from hypercorn.app_wrappers import ASGIWrapper
    from hypercorn.trio.tcp_server import TCPServer
    from hypercorn.trio.worker_context import WorkerContext

    from .core import ScriptApp

    world = _World("trio")
    cfg = _config(world)

    async def main() -> Any:
        app = ASGIWrapper(ScriptApp(world, apps))
        ctx = WorkerContext(None)

        async def handler(stream: Any) -> None:
            await TCPServer(app, cfg, ctx, {}, stream)

        async with trio.open_nursery() as nursery:
            from functools import partial

            listeners = await nursery.start(partial(trio.serve_tcp, handler, 0, host="127.0.0.1"))
            port = listeners[0].socket.getsockname()[1]
            with trio.fail_after(20):
                res = await trio.to_thread.run_sync(_client_run, port, opts, steps)
            nursery.cancel_scope.cancel()
        return res

    cl, closed = trio.run(main)

    class R:
        client = cl
        out = b""

    return client_view(R), closed


def main() -> int:
    t0 = time.time()
    bad = 0
    for name, opts, steps, apps in TRACES:
        for engine, real in (("asyncio", _real_asyncio), ("trio", _real_trio)):
            fake_obs = _fake(engine, opts, steps, apps)
            real_obs = real(opts, steps, apps)
            if fake_obs != real_obs:
                bad += 1
                print(f"conformance: {engine}/{name}: the environment model disagrees with real sockets")
                print(f"   model: {repr(fake_obs)[:400]}")
                print(f"   real : {repr(real_obs)[:400]}")
    print(f"conformance: {len(TRACES) * 2 - bad}/{len(TRACES) * 2} traces agree with real loopback sockets ({time.time() - t0:.1f}s)")
    return 1 if bad else 0
