"""C04 input generators: the corpus of valid sessions, single-point mutations, splices, short strings and the
HTTP/2 frame grammar (a pure client-side model deciding which frames a client may send next).

No hypercorn imports: everything here is the *specification* of what the client sends.
"""
from __future__ import annotations

from typing import Dict, Iterator, List, Optional, Tuple

import h2.config
import h2.connection

from .clients import OP_PING, OP_TEXT, h1_request, ws_close_frame, ws_frame, ws_h1_handshake, ws_h2_headers
from .x_c04_ref import (PREFACE, f_data, f_goaway, f_headers, f_ping, f_priority, f_rst, f_settings, f_winup, frame,
                        h2_preamble, server_settings_frame)

# ---------------------------------------------------------------------------------------------
# applications (by path); every HTTP response is 200 with the three byte body b"abc"

START = {"type": "http.response.start", "status": 200, "headers": [(b"content-length", b"3")]}
BODY = {"type": "http.response.body", "body": b"abc", "more_body": False}
APPS = {
    "http": [("recv_body",), ("send", START), ("send", BODY)],  # answer once the request body is complete
    "http:/now": [("send", START), ("send", BODY)],  # answer at once, never read
    "http:/gated": [("gate", "g"), ("send", START), ("send", BODY)],
    "http:/never": [("recv_until_disconnect",)],
    "websocket": [("recv",), ("send", {"type": "websocket.accept"}), ("echo_ws",)],
    # WebSocket applications that end the connection themselves once the explorer releases them
    "websocket:/ret": [("recv",), ("send", {"type": "websocket.accept"}), ("gate", "g"), ("return",)],
    "websocket:/close": [("recv",), ("send", {"type": "websocket.accept"}), ("gate", "g"),
                         ("send", {"type": "websocket.close", "code": 1000}), ("return",)],
    "websocket:/raise": [("recv",), ("send", {"type": "websocket.accept"}), ("gate", "g"), ("raise",)],
}

# ---------------------------------------------------------------------------------------------
# corpus: name -> (connection options, atoms); the joins between atoms are the structural boundaries


def _lines(raw: bytes) -> List[bytes]:
    out = []
    while raw:
        i = raw.find(b"\r\n")
        if i < 0:
            out.append(raw)
            break
        out.append(raw[:i + 2])
        raw = raw[i + 2:]
    return out


def _h2_frames(raw: bytes) -> List[bytes]:
    out = []
    if raw.startswith(PREFACE):
        out.append(raw[:len(PREFACE)])
        raw = raw[len(PREFACE):]
    while raw:
        n = int.from_bytes(raw[:3], "big")
        out.append(raw[:9 + n])
        raw = raw[9 + n:]
    return out


def _h2_client() -> h2.connection.H2Connection:
    return h2.connection.H2Connection(config=h2.config.H2Configuration(client_side=True, header_encoding=None))


def _req(method: bytes, path: bytes, scheme: bytes = b"https") -> List[Tuple[bytes, bytes]]:
    return [(b":method", method), (b":path", path), (b":scheme", scheme), (b":authority", b"hypercorn")]


def _build_corpus() -> Dict[str, tuple]:
    corpus: Dict[str, tuple] = {}
    # 1. HTTP/1.1 keep-alive pair
    a = h1_request(b"GET", b"/a?x=1")
    b = h1_request(b"POST", b"/b", [(b"Accept", b"*/*")], body=b"hello")
    corpus["h1pair"] = ({"carrier": "h1"}, _lines(a) + _lines(b[:-5]) + [b"hello"], 2)
    # 2. chunked POST
    c = h1_request(b"POST", b"/c", chunked=[b"hel", b"lo"])
    corpus["h1chunked"] = ({"carrier": "h1"}, _lines(c), 1)
    # 3. h2c upgrade followed by a second request over HTTP/2
    cl = _h2_client()
    settings = cl.initiate_upgrade_connection()
    first = cl.data_to_send()
    cl.receive_data(server_settings_frame())
    cl.send_headers(3, _req(b"GET", b"/second", b"http"), end_stream=True)
    rest = first + cl.data_to_send()
    up = h1_request(b"GET", b"/first", [(b"Connection", b"Upgrade, HTTP2-Settings"), (b"Upgrade", b"h2c"),
                                        (b"HTTP2-Settings", settings)])
    corpus["h2c"] = ({"carrier": "h2c"}, _lines(up) + _h2_frames(rest), 2)
    # 4. WebSocket over HTTP/1.1
    corpus["wsh1"] = ({"carrier": "ws/h1"},
                      _lines(ws_h1_handshake(b"/w")) + [ws_frame(OP_TEXT, b"yo"), ws_close_frame(1000, "bye")], 1)
    # 5. HTTP/2 (ALPN) with two streams
    cl = _h2_client()
    cl.initiate_connection()
    raw = cl.data_to_send()
    cl.receive_data(server_settings_frame())
    cl.send_headers(1, _req(b"POST", b"/one") + [(b"content-length", b"5")], end_stream=False)
    cl.send_data(1, b"hello", end_stream=True)
    cl.send_headers(3, _req(b"GET", b"/two?q=1"), end_stream=True)
    raw += cl.data_to_send()
    corpus["h2two"] = ({"carrier": "h2", "tls": True, "alpn": "h2"}, _h2_frames(raw), 2)
    # 6. WebSocket over HTTP/2 (RFC 8441)
    cl = _h2_client()
    cl.initiate_connection()
    raw = cl.data_to_send()
    cl.receive_data(server_settings_frame())
    cl.send_headers(1, ws_h2_headers(b"/w"), end_stream=False)
    cl.send_data(1, ws_frame(OP_TEXT, b"yo"), end_stream=False)
    cl.send_data(1, ws_close_frame(1000, "bye"), end_stream=False)
    raw += cl.data_to_send()
    corpus["wsh2"] = ({"carrier": "ws/h2", "tls": True, "alpn": "h2", "ws_streams": (1,)}, _h2_frames(raw), 1)
    # 7. WebSocket over HTTP/1.1 whose handshake carries the optional token-list headers (subprotocols, extensions)
    #    and whose close frame is followed by one more frame
    ext = [(b"Sec-WebSocket-Protocol", b"chat, superchat"), (b"Sec-WebSocket-Extensions", b"permessage-deflate")]
    tail = [ws_frame(OP_TEXT, b"yo"), ws_close_frame(1000, "bye"), ws_frame(OP_PING, b"late")]
    corpus["wsh1ext"] = ({"carrier": "ws/h1", "deflate": True}, _lines(ws_h1_handshake(b"/w", ext)) + tail, 1)
    # 8. the same over HTTP/2; written with literal HPACK (no Huffman coding, no indexing) so that a byte mutation of
    #    a header value is a byte mutation of what the server's header parsing sees
    raw = h2_preamble() + f_headers(1, ws_h2_headers(b"/w", [(n.lower(), v) for n, v in ext]), False)
    raw += b"".join(f_data(1, x, False) for x in tail)
    corpus["wsh2ext"] = ({"carrier": "ws/h2", "tls": True, "alpn": "h2", "ws_streams": (1,), "deflate": True},
                         _h2_frames(raw), 1)
    # 9. plain HTTP/2 requests (POST with a body, GET with a query) written with literal HPACK, so that every byte of the
    #    pseudo-header fields (:method, :path, :scheme, :authority) is mutated as such
    raw = h2_preamble() + f_headers(1, _req(b"POST", b"/one") + [(b"content-length", b"5")], False)
    raw += f_data(1, b"hello", True) + f_headers(3, _req(b"GET", b"/two?q=1") + [(b"accept", b"*/*")], True)
    corpus["h2lit"] = ({"carrier": "h2", "tls": True, "alpn": "h2"}, _h2_frames(raw), 2)
    # 10. an HTTP/1.1 request that offers a LIST of protocols in Upgrade (websocket among them) with the rest of a
    #     WebSocket handshake: every byte of the list is mutated (also into obs-text bytes), which no session above does
    #     to a token that stands next to "websocket"
    lst = h1_request(b"GET", b"/w", [(b"Upgrade", b"websocket, x/1"), (b"Connection", b"Upgrade"),
                                     (b"Sec-WebSocket-Key", b"dGhlIHNhbXBsZSBub25jZQ=="), (b"Sec-WebSocket-Version", b"13")])
    corpus["h1uplist"] = ({"carrier": "h1"}, _lines(lst), 1)
    return corpus


CORPUS = _build_corpus()
SESSIONS = list(CORPUS)
# the sessions that differ from wsh1 / wsh2 / h2two in header lines / header coding only are mutated but not spliced
SPLICE_SESSIONS = [s for s in SESSIONS if not s.endswith("ext") and s not in ("h2lit", "h1uplist")]


def session_bytes(name: str) -> bytes:
    return b"".join(CORPUS[name][1])


def boundaries(name: str) -> List[int]:
    """Offsets of the structural boundaries (0 and len included)."""
    out = [0]
    for atom in CORPUS[name][1]:
        out.append(out[-1] + len(atom))
    return out


# ---------------------------------------------------------------------------------------------
# single-point mutations

REPLACEMENTS = (0x00, 0x0A, 0x0D, 0x20, 0x3A, 0x80, 0xFF)


def mutation_ops(byte: int) -> List[tuple]:
    ops: List[tuple] = [("del",), ("dup",), ("flip",)]
    ops += [("rep", r) for r in REPLACEMENTS if r != byte and r != byte ^ 1]
    return ops


def mutate(raw: bytes, pos: int, op: tuple) -> bytes:
    if op[0] == "del":
        return raw[:pos] + raw[pos + 1:]
    if op[0] == "dup":
        return raw[:pos + 1] + raw[pos:]
    if op[0] == "flip":
        return raw[:pos] + bytes([raw[pos] ^ 1]) + raw[pos + 1:]
    if op[0] == "rep":
        return raw[:pos] + bytes([op[1]]) + raw[pos + 1:]
    if op[0] in ("cut", "trunc"):
        return raw
    raise ValueError(op)


def mutation_cases(name: str, lo: int, hi: int, tier: str, engine: str) -> Iterator[tuple]:
    """Cases (pos, op, feed, ending) for byte positions lo..hi-1 of one session.

    feed: 'whole' = one read, 'split' = two reads cut at the mutation point; ending: 'eof' | 'tick'."""
    raw = session_bytes(name)
    full = tier == "thorough" or engine == "asyncio"
    endings = ("eof", "tick") if tier == "thorough" else ("eof",)
    for pos in range(lo, min(hi, len(raw))):
        yield (pos, ("trunc",), "whole", "eof")
        if pos:
            yield (pos, ("cut",), "split", "eof")
        ops = mutation_ops(raw[pos])
        if not full:
            ops = [op for op in ops if op in (("del",), ("flip",), ("rep", 0xFF), ("rep", 0x0A))]
        for op in ops:
            for ending in endings:
                yield (pos, op, "whole", ending)
                if pos and full:
                    yield (pos, op, "split", ending)


def case_events(raw: bytes, pos: int, op: tuple, feed: str, ending: str) -> List[tuple]:
    data = mutate(raw, pos, op)
    if op[0] == "trunc":
        segs = [data[:pos]]
    elif feed == "split" and 0 < pos < len(data):
        segs = [data[:pos], data[pos:]]
    else:
        segs = [data]
    evs: List[tuple] = [("data", 0, s) for s in segs if s]
    if ending == "eof":
        evs.append(("eof", 0))
    else:
        evs += [("tick",), ("tick",)]
    return evs


# ---------------------------------------------------------------------------------------------
# short strings

ALPHABET = (0x00, 0x01, 0x04, 0x0A, 0x0D, 0x20, 0x2F, 0x3A, 0x47, 0x50, 0x80, 0xFF)


def short_strings(maxlen: int) -> List[bytes]:
    out = [b""]
    layer = [b""]
    for _ in range(maxlen):
        layer = [s + bytes([c]) for s in layer for c in ALPHABET]
        out += layer
    return out


H1_GET = h1_request(b"GET", b"/after")
H2_GET = f_headers(1, _req(b"GET", b"/after"), end_stream=True)

# ---------------------------------------------------------------------------------------------
# HTTP/2 frame grammar: a pure model of the client side

HKINDS = {
    # kind: (headers, END_STREAM, framing extras)
    "get": (_req(b"GET", b"/now"), True, {}),
    "gated": (_req(b"GET", b"/gated"), True, {}),
    "never": (_req(b"GET", b"/never"), True, {}),
    "post_now": (_req(b"POST", b"/now"), False, {}),
    "post_body": (_req(b"POST", b"/body"), False, {}),
    "connect_plain": ([(b":method", b"CONNECT"), (b":authority", b"hypercorn:443")], False, {}),
    "connect_ext": (ws_h2_headers(b"/ws"), False, {}),
    "nonascii": (_req(b"GET", b"/caf\xc3\xa9"), True, {}),
    "nonascii_ws": (ws_h2_headers(b"/caf\xc3\xa9"), False, {}),
    "cont": (_req(b"GET", b"/now"), True, {"split": True}),
    "prio": (_req(b"GET", b"/now"), True, {"priority": (0, 5, False)}),
    "padded": (_req(b"GET", b"/now"), True, {"pad": 3}),
}
ANSWERED_AT_ONCE = ("get", "cont", "prio", "padded", "post_now")
ODD_KINDS = {"connect_plain": "connect-no-path", "nonascii": "nonascii-path", "nonascii_ws": "nonascii-path"}
MAX_SLOTS = 2
UNKNOWN_TYPE = 0x7F


class ClientModel:
    """What the client has sent so far (stream slots, not what the server did with it)."""

    def __init__(self) -> None:
        self.slots: List[dict] = []  # {sid, kind, open, reset, released, data_after}
        self.goaway = False
        self.small_window = False  # a SETTINGS_INITIAL_WINDOW_SIZE below the response size was announced
        self.tags: set = set()  # HTTP-level oddities sent so far
        self.npre = 0

    @property
    def next_sid(self) -> int:
        return 1 + 2 * len(self.slots)

    def key(self) -> tuple:
        return (tuple((s["kind"], s["open"], s["reset"], s["released"], s["ended"], s["odd"], s.get("ws_over", False))
                      for s in self.slots),
                self.goaway, self.small_window, tuple(sorted(self.tags)), self.npre)

    def enabled(self, kinds: Tuple[str, ...], core: bool = False) -> List[tuple]:
        """Operations a client may send next; `core` leaves out the near-duplicates (padded DATA, unknown frame on
        a stream, window size 1) so that the search can go one level deeper."""
        if self.goaway:
            return []
        ops: List[tuple] = []
        if len(self.slots) < MAX_SLOTS:
            ops += [("H", k) for k in kinds]
        for i, s in enumerate(self.slots):
            if s["open"]:
                ops += [("D", i, 0, 0), ("D", i, 1, 0), ("T", i)]
                if not core:
                    ops.append(("D", i, 0, 2))
            if not s["reset"]:
                ops.append(("R", i))
            ops.append(("W", i + 1))
            if not core:
                ops.append(("U", i + 1))
        ops += [("W", 0), ("U", 0), ("P", "pre"), ("P", "self"), ("S", 0), ("S", 1 << 20), ("PING",), ("G",)]
        if not core:
            ops.append(("S", 1))
        if self.slots:
            ops.append(("P", "dep"))
        if any(s["kind"] == "gated" and not s["released"] for s in self.slots):
            ops.append(("REL",))
        return ops

    def apply(self, op: tuple) -> Optional[bytes]:
        """Bytes of the frame(s) for `op` (None for the gate release); updates the model."""
        k = op[0]
        if k == "H":
            headers, end, extra = HKINDS[op[1]]
            sid = self.next_sid
            self.slots.append({"sid": sid, "kind": op[1], "open": not end, "reset": False, "released": False,
                               "ended": end, "odd": op[1] in ODD_KINDS})
            if op[1] in ODD_KINDS:
                self.tags.add(ODD_KINDS[op[1]])
            return f_headers(sid, headers, end, **extra)
        if k == "D":
            s = self.slots[op[1]]
            if s["kind"] == "post_now" or s.get("ws_over"):
                self.tags.add("data-after-response")
                s["odd"] = True
            if s["kind"] in ("connect_ext", "nonascii_ws"):
                s["ws_over"] = True  # b"xy" is not a WebSocket frame: the server ends the WebSocket (1002)
            if op[2]:
                s["open"] = False
                s["ended"] = True
            return f_data(s["sid"], b"xy", bool(op[2]), pad=op[3])
        if k == "T":
            s = self.slots[op[1]]
            if s["kind"] == "post_now" or s.get("ws_over"):
                self.tags.add("data-after-response")
                s["odd"] = True
            s["open"] = False
            s["ended"] = True
            return f_headers(s["sid"], [(b"x-trailer", b"1")], True)
        if k == "R":
            s = self.slots[op[1]]
            s["reset"] = True
            s["open"] = False
            return f_rst(s["sid"], 8)
        if k == "W":
            return f_winup(0 if op[1] == 0 else self.slots[op[1] - 1]["sid"], 1)
        if k == "U":
            return frame(UNKNOWN_TYPE, 0, 0 if op[1] == 0 else self.slots[op[1] - 1]["sid"], b"zz")
        if k == "P":
            if op[1] == "pre":  # PRIORITY for a stream whose HEADERS were not sent yet, parent idle as well
                self.npre += 1
                return f_priority(self.next_sid, self.next_sid + 2, 10)
            if op[1] == "self":  # RFC 7540 5.3.1: a stream cannot depend on itself (PROTOCOL_ERROR)
                return f_priority(self.next_sid, self.next_sid, 10)
            s = self.slots[-1]
            return f_priority(s["sid"], self.slots[0]["sid"] if len(self.slots) > 1 else self.next_sid, 200, True)
        if k == "S":
            if op[1] < 3:
                self.small_window = True
            return f_settings({4: op[1]})
        if k == "PING":
            return f_ping()
        if k == "G":
            self.goaway = True
            return f_goaway(0, 0)
        if k == "REL":
            for s in self.slots:
                if s["kind"] == "gated" and not s["released"]:
                    s["released"] = True
                    break
            return None
        raise ValueError(op)


def grammar_events(history: List[tuple]) -> Tuple[List[tuple], ClientModel, List[Optional[bytes]]]:
    model = ClientModel()
    events: List[tuple] = [("data", 0, h2_preamble())]
    chunks: List[Optional[bytes]] = []
    for op in history:
        data = model.apply(tuple(op))
        chunks.append(data)
        events.append(("release", "g") if data is None else ("data", 0, data))
    return events, model, chunks


def grammar_kinds(alphabet: str) -> Tuple[str, ...]:
    """HEADERS shapes of the three alphabets: 'full' (12), 'quick' (10), 'core' (9)."""
    if alphabet == "full":
        return tuple(HKINDS)
    if alphabet == "core":
        return tuple(k for k in HKINDS if k not in ("nonascii_ws", "padded", "prio"))
    return tuple(k for k in HKINDS if k not in ("nonascii_ws", "padded"))


def grammar_enabled(model: ClientModel, alphabet: str) -> List[tuple]:
    return model.enabled(grammar_kinds(alphabet), core=alphabet == "core")


def grammar_roots(alphabet: str, nroot: int) -> List[List[tuple]]:
    """All client-legal histories of length nroot (by the pure model)."""
    roots: List[List[tuple]] = [[]]
    for _ in range(nroot):
        nxt = []
        for h in roots:
            _, model, _ = grammar_events(h)
            for op in grammar_enabled(model, alphabet):
                nxt.append(h + [op])
        roots = nxt
    return roots
