#!/venv/bin/python
"""Regenerates MANIFEST.json from the property modules that exist (props/cNN.py) -- keeps it valid."""
import importlib, json, os, sys
sys.path.insert(0, os.path.dirname(os.path.abspath(__file__)))
os.environ.setdefault("PYTHONHASHSEED", "0")
PENDING = {}
READY = [l.strip() for l in open("READY.txt") if l.strip() and not l.startswith("#")]
props = [json.loads(l) for l in open("properties.jsonl")]
checks, na = [], []
for p in props:
    pid = p["id"]
    path = f"props/{pid.lower()}.py"
    if os.path.exists(path) and pid in READY:
        mod = importlib.import_module(f"props.{pid.lower()}")
        checks.append({
            "property_id": pid,
            "quick_cmd": f"./check {pid} --tier quick",
            "thorough_cmd": f"./check {pid} --tier thorough",
            "evidence_file": f"/verif/evidence/{pid}.json",
            "replay_cmd_template": f"./check {pid} --replay {{path}}",
            "engine": "mc",
            "level_claimed": {"category": mod.LEVEL, "text": getattr(mod, "LEVEL_TEXT", mod.RULE), "design_ref": getattr(mod, "DESIGN_REF", f"DESIGN.md section 4 ({pid})")},
            "level_note": "; ".join(mod.ASSUMPTIONS),
            "technique": mod.TECHNIQUE,
        })
    else:
        na.append({"property_id": pid, "reason": PENDING.get(pid, "harness not built yet in this round (planned in DESIGN.md section 4); not claimed until its check exists and is quiet on the unchanged tree")})
manifest = {
    "version": 1,
    "setup_cmd": "./check selftest",
    "hooks": {"guard": "HYPERCORN_VERIF", "enable": "no hooks are compiled in: checks import /repo/src directly (HYPERCORN_SRC overrides) and patch module-level names from the harness process", "baseline_off_cmd": "cd /repo && /venv/bin/python -m pytest -ra -q -p no:cacheprovider --timeout=900 --continue-on-collection-errors", "source_commits": [], "add_only": True},
    "engines": [{"name": "mc", "path": "/verif/mc", "serves_properties": [c["property_id"] for c in checks], "kind_free_text": "hand-written explorers for Python: stateless deviation-bounded DFS (Explorer A) and explicit-state BFS over operation histories (Explorer B) driving the real hypercorn code under a virtual-time asyncio loop / an instrumented trio run"}],
    "checks": checks,
    "not_applicable": na,
    "notes": "All checks run the working tree in /repo/src; evidence is written by the checks themselves.",
}
json.dump(manifest, open("MANIFEST.json", "w"), indent=1)
print(f"{len(checks)} checks, {len(na)} not claimed")
