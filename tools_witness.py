#!/venv/bin/python
"""tools_witness.py <PROP> <finding-id>: find one execution matching an open known finding and store it as its witness."""
import importlib, json, os, sys, time
sys.path.insert(0, os.path.dirname(os.path.abspath(__file__)))
from mc import explore
prop, kid = sys.argv[1], sys.argv[2]
mod = importlib.import_module(f"props.{prop.lower()}")
known = [k for k in explore.load_known() if k["id"] == kid]
assert known, "no such open finding"
for params in mod.scenarios("quick"):
    res = explore.explore_item(mod.execute, params, mod.bounds("quick", params), time.time() + 60)
    for v in res["violations"]:
        if explore.match_known(prop, v, known):
            path = explore.write_replay(prop, v, "quick")
            dst = os.path.join(explore.VERIF, known[0]["witness"])
            os.makedirs(os.path.dirname(dst), exist_ok=True)
            os.replace(path, dst)
            print("witness written:", dst, v["clause"], v["key"])
            sys.exit(0)
print("no witness found"); sys.exit(1)
