#!/venv/bin/python
"""tools_reseed.py [seed-id ...]: regression of detection.  Re-applies every filed seeded change (seeded/<id>/patch.diff)
to a scratch worktree of /repo HEAD and re-runs the check(s) recorded in its meta.json `caught_by`; prints which are
still caught.  Nothing is written under /verif except seeded/RESEED.json (summary of the last full run)."""
import json, os, subprocess, sys, time

VERIF = os.path.dirname(os.path.abspath(__file__))
JOBS = os.environ.get("SEED_JOBS", "16")


def sh(cmd, **kw):
    return subprocess.run(cmd, shell=True, capture_output=True, text=True, **kw)


ids = sys.argv[1:] or sorted(d for d in os.listdir(f"{VERIF}/seeded") if os.path.isdir(f"{VERIF}/seeded/{d}"))
head = sh("git -C /repo rev-parse --short HEAD").stdout.strip()
summary = {"repo_head": head, "seeds": {}}
bad = 0
for sid in ids:
    d = f"{VERIF}/seeded/{sid}"
    meta = json.load(open(f"{d}/meta.json"))
    checks = meta.get("caught_by") or [meta.get("property")]
    wt = f"/tmp/wt/reseed_{sid}"
    sh(f"git -C /repo worktree remove --force {wt}")
    base = meta["repo_head"] if "base_note" in meta else "HEAD"  # a change made moot by a later fix: stays on its own base
    r = sh(f"git -C /repo worktree add -q {wt} {base}")
    assert r.returncode == 0, r.stderr
    try:
        a = sh(f"git -C {wt} apply --3way {d}/patch.diff")
        if a.returncode != 0:
            a = sh(f"git -C {wt} apply {d}/patch.diff")
        if a.returncode != 0:
            print(f"{sid}: patch no longer applies to {head} ({a.stderr.strip().splitlines()[-1:]})")
            summary["seeds"][sid] = {"applies": False}
            bad += 1
            continue
        res = {}
        for c in checks[:1]:
            t0 = time.time()
            env = dict(os.environ, HYPERCORN_SRC=f"{wt}/src", VERIF_NO_EVIDENCE="1", VERIF_REPLAY_DIR=f"/tmp/replays_re_{sid}")
            rc = sh(f"cd {VERIF} && ./check {c} --tier quick --jobs {JOBS}", env=env)
            res[c] = {"exit": rc.returncode, "wall_s": round(time.time() - t0, 1),
                      "first": [l for l in rc.stdout.splitlines() if l.startswith("  clause")][:2]}
        ok = any(v["exit"] == 1 for v in res.values())
        bad += 0 if ok else 1
        summary["seeds"][sid] = {"applies": True, "checks": res, "still_caught": ok}
        print(f"{sid}: {'caught' if ok else 'MISSED'} {res}")
    finally:
        sh(f"git -C /repo worktree remove --force {wt}")
        sh(f"rm -rf /tmp/replays_re_{sid}")
if not sys.argv[1:]:
    json.dump(summary, open(f"{VERIF}/seeded/RESEED.json", "w"), indent=1)
print(f"{len(ids) - bad}/{len(ids)} seeded changes still caught at {head}")
sys.exit(1 if bad else 0)
