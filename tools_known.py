#!/venv/bin/python
"""tools_known.py: replays the witness of every OPEN known finding (replays/known/*.json) without the explorer and
checks that it still reproduces its violation on the current /repo tree.  A witness that no longer reproduces means the
defect was repaired (move the entry to "fixed") or the schedule shifted (regenerate it with ./tools_witness.py)."""
import json, os, subprocess, sys
V = os.path.dirname(os.path.abspath(__file__))
d = json.load(open(f"{V}/known_findings.json"))
bad = 0
for f in d["findings"]:
    if f.get("status") != "open":
        continue
    w = os.path.join(V, f["witness"])
    r = subprocess.run([f"{V}/check", f["property"], "--replay", w], capture_output=True, text=True)
    ok = "verdict: REPRODUCED" in r.stdout
    print(f"{f['id']}: {'reproduced' if ok else 'NOT REPRODUCED'}")
    bad += 0 if ok else 1
sys.exit(1 if bad else 0)
